"""C14 - circle and sphere parameters describe the true geodesic, segment and horosphere.

Every case is generated *by construction*: the two ideal endpoints u, v of a geodesic are
drawn first (at Euclidean distance >= 0.05 from (1,0,..,0), the half-space point at
infinity), then the endpoints of a segment as points of the Klein chord uv at hyperbolic
arclength parameters t_p, t_q; horocycles are drawn as Euclidean circles of the Poincare
disk tangent to the unit circle; subspaces as the span of ideal points placed on a round
sphere of the half-space boundary.  The oracles are the closed forms of oracles/hyp.py
and oracles/circles.py (Klein chords are straight: a point of the reported arc is on the
segment iff, mapped to Klein by the harness, it is p + s (q-p) with 0 <= s <= 1)."""
import math
import numpy as np
from hypothesis import strategies as st

from ..core import Law, HarnessError
from .. import gen
from ..gen import fl
from ..num import mink
from ..oracles import hyp as H
from ..oracles import circles as C

from geometry_tools import hyperbolic, GeometryError

TWO_PI = 2.0 * math.pi
D_INF = 0.0501          # minimal Euclidean distance of ideal points from (1,0,..,0)

RULE = ("cases: the geodesic's two ideal endpoints are drawn first (n=2: two angles in "
        "[0.05, 2pi-0.05] at least 0.05 apart; n=3,4: unit vectors at distance >= 0.05 from "
        "(1,0,..) and >= 0.05 from each other), then the segment endpoints p = (1-s)u + s v "
        "on the Klein chord, s drawn uniformly in hyperbolic arclength (|t| <= 3) or uniformly "
        "in [s(-3), s(3)], |s_p - s_q| >= 1e-3, each endpoint interior or ideal; free interior pairs (Klein radius <= 0.999, separation >= 1e-3) for the "
        "Poincare-only clauses; chords at offsets 0, 1e-12 .. 1e-2 from the origin (straight "
        "line limit); horospheres = ideal direction x interior reference point, n = 2..4; "
        "horocyclic arcs = two points of a Euclidean circle of radius 0.05..0.95 tangent to "
        "the unit circle; subspaces = span of k = 2..n ideal points a + rho d_i on a round "
        "sphere of the half-space boundary (|a| + rho <= 30, d_i a perturbed orthonormal "
        "frame), Hyperplane objects from the Minkowski normal of such a configuration; unit "
        "objects and composites of 1..3 units; both conformal models; degrees and radians.  "
        "non-trivial = no endpoint at the origin and (n >= 3 or (n = 2, angles checked and "
        "radius in (0.05, 50))); distinct = distinct JSON case.")

ASSUMPTIONS = [
    "ideal endpoints of every geodesic keep Euclidean distance >= 0.05 from the half-space "
    "point at infinity (a geodesic ending there is a vertical line and has no circle); "
    "Hyperplane objects choose their own ideal basis, so their half-space clauses are "
    "evaluated only when that basis stays at distance >= 0.05 from infinity (counted)",
    "segment endpoints differ by >= 1e-3 in the chord parameter (the library extrapolates "
    "from the endpoints to the ideal endpoints; factor chord/|p-q| <= 1000); tolerances: "
    "1e-5 (1+r) + 1e-8 * that factor, in the half-space times the squared size of the "
    "half-space coordinates involved (the library reaches half-space through "
    "sqrt(1-|x|^2)); orthogonality 1e-6 (1+r^2) in Poincare, centre height 1e-4 (1+r) in "
    "half-space",
    "the order of the two reported angles (which arc) is asserted only when the positional "
    "uncertainty granted by these tolerances is below 5% of the arc's chord and, in the "
    "half-space, below 20% of the height of interior endpoints (otherwise counted as "
    "arc-order-unresolved; about 10% of the units, all with ideal endpoints within ~0.15 of "
    "the point at infinity or nearly coincident endpoints)",
    "boundary_sphere_parameters is evaluated for hyperplanes only (k = n ideal points): for "
    "lower-dimensional subspaces the library refuses with GeometryError (a (k-1)-sphere "
    "through k points of R^(n-1) is not unique)",
    "float64 only",
]

CLAIM = dict(
    text=("Ideal endpoints of segments are lightlike, collinear with the endpoints in Klein "
          "and equal to the generating ideal points; sphere_parameters of segments, "
          "geodesics, subspaces (dimension 1..n-1) and hyperplanes give spheres through the "
          "endpoints / ideal points, orthogonal to the boundary, containing sampled points of "
          "the subspace, in both conformal models (n = 2..4); circle_parameters of Segment, "
          "Geodesic and HorosphereArc report the endpoints' angles and the counter-clockwise "
          "arc they bound is exactly the segment (resp. the horocyclic arc avoiding the ideal "
          "centre); degrees = radians*180/pi; Horosphere.sphere_parameters passes through the "
          "reference point and is tangent to the boundary at the centre."),
    note=("straight-line limit (segments through the origin) accepts NaN/inf only when the "
          "harness' own offset of the chord from the origin is below 1e-7"),
    technique="property-based testing (Hypothesis), closed-form oracles, by-construction generators",
)

# tolerances ---------------------------------------------------------------
TOL_LIGHT = 1e-9        # |<v,v>| <= TOL_LIGHT |v|^2 / separation-conditioning
TOL_ON = 1e-5           # ||p-c|-r| <= TOL_ON (1+r)
TOL_ORTH_P = 1e-6       # ||c|^2 - r^2 - 1| <= TOL_ORTH_P (1 + r^2)
TOL_ORTH_H = 1e-4       # centre height <= TOL_ORTH_H (1+r)
TOL_ARC = 1e-5          # arc points on the segment (Klein residual, distance defect)
TS = [0.02, 0.1, 0.25, 0.5, 0.75, 0.9, 0.98]


# ---------------------------------------------------------------------------
# strategies
def _dist(a, b):
    return math.sqrt(sum((x - y) ** 2 for x, y in zip(a, b)))


def _e0(n):
    return [1.0] + [0.0] * (n - 1)


@st.composite
def ideal_pair(draw, n, gmin=0.05):
    """two unit vectors of R^n, >= D_INF away from (1,0,..) and >= gmin apart"""
    if n == 2:
        a = draw(fl(D_INF, TWO_PI - D_INF - gmin - 0.01))
        w = draw(st.one_of(fl(gmin, TWO_PI - D_INF - a), fl(gmin, TWO_PI - D_INF - a),
                           fl(gmin, TWO_PI - D_INF - a),
                           st.sampled_from([math.pi, math.pi / 2, gmin])))
        w = min(max(w, gmin), TWO_PI - D_INF - a)
        b = a + w
        u, v = [math.cos(a), math.sin(a)], [math.cos(b), math.sin(b)]
    else:
        u = draw(gen.ideal_direction(n, away_from_inf=D_INF))
        v = draw(gen.ideal_direction(n, away_from_inf=D_INF))
        if _dist(u, v) < gmin:
            cands = [[-x for x in u]]
            for s in (1.0, -1.0):
                c = [0.0] * n
                c[1] = s
                cands.append(c)
            for c in cands:
                if _dist(c, _e0(n)) >= D_INF and _dist(c, u) >= gmin:
                    v = c
                    break
    if draw(st.booleans()):
        u, v = v, u
    return u, v


def chord_point(u, v, t):
    s = 1.0 / (1.0 + math.exp(-2.0 * t))
    return [(1.0 - s) * a + s * b for a, b in zip(u, v)]


SIG_MIN = 1.0 / (1.0 + math.exp(6.0))      # chord parameter of the point at t = -3


@st.composite
def chord_unit(draw, n, kinds=("ii", "ii", "ii", "ii", "xi", "ix", "xx")):
    """ideal endpoints u, v and two points p, q of the Klein chord: p = (1-s_p) u + s_p v.
    The chord parameters are drawn uniformly in hyperbolic arclength (|t| <= 3) or
    uniformly in s, and differ by at least 1e-3 (so the extrapolation factor
    chord/|p-q| that the library's route to the ideal endpoints suffers is <= 1000)."""
    u, v = draw(ideal_pair(n))
    kind = draw(st.sampled_from(list(kinds)))
    if draw(st.booleans()):
        t = draw(st.one_of(fl(-3.0, 3.0), st.sampled_from([0.0, -3.0])))
        sp = 1.0 / (1.0 + math.exp(-2.0 * t))
    else:
        sp = draw(fl(SIG_MIN, 1.0 - SIG_MIN))
    sp = min(max(sp, SIG_MIN), 1.0 - SIG_MIN - 2e-3)
    gap = draw(st.one_of(fl(1e-3, 1.0 - SIG_MIN - sp),
                         st.sampled_from([1e-3, 1e-2, 0.1])))
    sq = min(sp + gap, 1.0 - SIG_MIN)
    if draw(st.booleans()):
        sp, sq = 1.0 - sp, 1.0 - sq          # mirror: p beyond q
    lo_is_p = sp < sq
    pt = lambda s_: [(1.0 - s_) * a + s_ * b for a, b in zip(u, v)]
    p = pt(sp) if kind[0] == "i" else (u if lo_is_p else v)
    q = pt(sq) if kind[1] == "i" else (v if lo_is_p else u)
    return dict(u=u, v=v, p=p, q=q, kind=kind)


@st.composite
def free_unit(draw, n):
    """two interior Klein points in general position (Poincare-only clauses)"""
    p = draw(gen.klein_point(n, rmax=0.999))
    q = draw(gen.klein_point(n, rmax=0.999))
    if _dist(p, q) < 1e-3:
        q = [-0.5 * x for x in p]
        if _dist(p, q) < 1e-3:
            q = [0.3] + [0.0] * (n - 1)
    return dict(p=p, q=q, kind="ii")


def _shape(draw):
    return draw(st.sampled_from([[], [], [1], [2], [3], [2, 2], [2, 3], [3, 1]]))


@st.composite
def chords_case(draw, dims=(2, 3, 4), free=True):
    n = draw(st.sampled_from(list(dims)))
    shape = _shape(draw)
    cnt = gen.prod(shape)
    model = draw(st.sampled_from(["poincare", "halfspace"]))
    units = []
    for _ in range(cnt):
        # free pairs have uncontrolled ideal endpoints: Poincare only
        if free and model == "poincare" and draw(st.integers(0, 3)) == 0:
            units.append(draw(free_unit(n)))
        else:
            units.append(draw(chord_unit(n)))
    return dict(n=n, shape=shape, units=units, ctor=draw(st.sampled_from([0, 1, 2, 3, 4, 5, 6])),
                model=model,
                obj=draw(st.sampled_from(["segment", "segment", "geodesic"])))


# ---------------------------------------------------------------------------
# builders / unit helpers
def _proj(x):
    x = np.asarray(x, dtype=float)
    return np.concatenate([np.ones(x.shape[:-1] + (1,)), x], axis=-1)


def build_segment(case, ctx=None):
    n, shape = case["n"], tuple(case["shape"])
    P = np.array([u["p"] for u in case["units"]], dtype=float).reshape(shape + (n,))
    Q = np.array([u["q"] for u in case["units"]], dtype=float).reshape(shape + (n,))
    ctor = case.get("ctor", 0)
    if ctor == 0:
        return hyperbolic.Segment(hyperbolic.Point(P.copy(), model="klein"),
                                  hyperbolic.Point(Q.copy(), model="klein"))
    if ctor in (5, 6):
        # endpoints supplied in Poincare (5) or half-space (6) coordinates, in the caller's own
        # arrays, which the caller goes on using: they still hold what was supplied
        model = "poincare" if ctor == 5 else "halfspace"
        inside = bool(np.all(np.sum(P * P, axis=-1) < 1 - 1e-9) and
                      np.all(np.sum(Q * Q, axis=-1) < 1 - 1e-9))
        if inside and (model == "poincare" or np.all(P[..., 0] < 0.9) and np.all(Q[..., 0] < 0.9)):
            Pm = np.array([to_model(x, model) for x in P.reshape(-1, n)]).reshape(shape + (n,))
            Qm = np.array([to_model(x, model) for x in Q.reshape(-1, n)]).reshape(shape + (n,))
            keep = (Pm.copy(), Qm.copy())
            seg = hyperbolic.Segment(hyperbolic.Point(Pm, model=model),
                                     hyperbolic.Point(Qm, model=model))
            seg.circle_parameters(model="poincare") if n == 2 else seg.sphere_parameters("poincare")
            if ctx is not None:
                ctx.label("ctor=model-coordinates")
                ctx.check(np.array_equal(Pm, keep[0]) and np.array_equal(Qm, keep[1]),
                          "building points from %s coordinates leaves the caller's arrays as "
                          "supplied" % model, before=keep[0], after=Pm)
            return seg
    if ctor == 1:
        # (two arrays of homogeneous coordinates; every other time negative and non-unit
        # representatives of the same points)
        if (len(case["units"]) + n) % 2:
            if ctx is not None:
                ctx.label("ctor=negative-representatives")
            return hyperbolic.Segment(hyperbolic.Point(-2.5 * _proj(P)),
                                      hyperbolic.Point(1.5 * _proj(Q)))
        return hyperbolic.Segment(_proj(P), _proj(Q))
    seg = hyperbolic.Segment(np.stack([_proj(P), _proj(Q)], axis=-2))
    if ctor == 3 and len(shape) >= 1:
        # the segment has been copied and the *copy* edited: the original is still the
        # segment of the case (its derived data must not be shared with the copy)
        work = hyperbolic.Segment(seg)
        other = hyperbolic.Segment(np.array([[1.0, 0.11] + [0.0] * (n - 1),
                                             [1.0, -0.2, 0.31] + [0.0] * (n - 2)]))
        work[0] = other if len(shape) == 1 else hyperbolic.Segment([other] * shape[1])
        flat = seg.flatten_to_unit()
        flat[0] = other
        return seg
    if ctor == 4 and len(shape) >= 1:
        # built item by item into a composite that held other segments before
        work = hyperbolic.Segment(np.stack([_proj(Q[..., ::-1] * 0.5), _proj(P * 0.3 + 0.05)],
                                           axis=-2))
        for i in range(shape[0]):
            work[i] = hyperbolic.Segment(np.stack([_proj(P[i]), _proj(Q[i])], axis=-2))
        return work
    return seg


def unit_iter(shape):
    return list(np.ndindex(*shape)) if len(shape) else [()]


LIBSPELL = {
    "poincare": ["poincare", "Poincare", hyperbolic.Model.POINCARE, "POINCARE"],
    "halfspace": ["halfspace", "halfplane", hyperbolic.Model.HALFSPACE, "HalfPlane",
                  hyperbolic.Model.HALFPLANE],
}


def lib_model(case):
    """the model of the case as the library is told: its canonical name, one of the documented
    aliases (in any case), or the enum member"""
    opts = LIBSPELL[case["model"]]
    return opts[(len(case["units"]) + len(case["shape"]) + case.get("ctor", 0)) % len(opts)]


def to_model(k, model):
    """harness map Klein -> model for interior or ideal points (1-d array)"""
    k = np.asarray(k, dtype=float)
    pc = H.klein_to_poincare(k)
    if model == "poincare":
        return pc
    hs = H.poincare_to_halfspace(pc)
    if abs(1.0 - k @ k) < 1e-12:
        hs[-1] = 0.0
    return hs


def from_model(x, model):
    """harness map model -> Klein"""
    x = np.asarray(x, dtype=float)
    if model == "halfspace":
        x = H.halfspace_to_poincare(x)
    return H.poincare_to_klein(x)


def true_ideal_ends(p, q):
    """ends of the Klein line through p, q on the unit sphere: (toward p side, q side)"""
    p = np.asarray(p, dtype=float)
    q = np.asarray(q, dtype=float)
    d = q - p
    d = d / np.sqrt(d @ d)
    b = p @ d
    disc = b * b - (p @ p - 1.0)
    s = math.sqrt(max(disc, 0.0))
    return p + (-b - s) * d, p + (-b + s) * d


def unit_ends(unit):
    if "u" in unit:
        u, v = np.array(unit["u"], dtype=float), np.array(unit["v"], dtype=float)
        return u, v
    return true_ideal_ends(unit["p"], unit["q"])


def hs_size(*pts):
    """1 + max |half-space coordinate|^2 of the given half-space points"""
    m = 0.0
    for x in pts:
        m = max(m, float(np.max(np.abs(x))))
    return 1.0 + m * m


def label_common(ctx, case, extra=()):
    ctx.label("n=%d" % case["n"], "rank=%d" % len(case["shape"]), *extra)
    if case["n"] >= 3:
        ctx.label("n>=3")


def not_origin(units):
    return all(max(abs(x) for x in u["p"]) > 0 and max(abs(x) for x in u["q"]) > 0
               for u in units)


# ---------------------------------------------------------------------------
# law 1: ideal endpoints
def body_ideal_endpoints(case, ctx):
    n, shape = case["n"], tuple(case["shape"])
    seg = build_segment(case, ctx)
    ctx.check(seg.shape == shape, "segment composite shape", got=seg.shape, want=shape)
    aux = np.array(seg.ideal_basis)
    ctx.check(aux.shape == shape + (2, n + 1), "ideal basis shape", got=aux.shape)
    kl = np.array(seg.ideal_endpoint_coords("klein"))
    kl2 = np.array(seg.ideal_basis_coords("klein"))
    ctx.check(kl.shape == shape + (2, n), "ideal_endpoint_coords shape", got=kl.shape)
    ctx.check(np.array_equal(kl, kl2), "ideal_endpoint_coords is an alias of "
              "ideal_basis_coords", got=kl, want=kl2)
    geo = seg.geodesic()
    gk = np.array(geo.endpoint_coords("klein"))
    label_common(ctx, case, ["ctor=%d" % case.get("ctor", 0)])
    if not_origin(case["units"]):
        ctx.label("not-origin")
    for i, idx in enumerate(unit_iter(shape)):
        unit = case["units"][i]
        ctx.label("kind=" + unit["kind"], "chord" if "u" in unit else "free")
        p, q = np.array(unit["p"], dtype=float), np.array(unit["q"], dtype=float)
        sep = float(np.sqrt(np.sum((p - q) ** 2)))
        a = aux[idx]
        nrm = mink(a, a) / np.sum(a * a, axis=-1)
        # conditioning of the quadratic: roots mu are O(chord/sep); the null combination
        # mu*p + (1-mu)*q has size ~ chord/sep times the inputs
        u, v = unit_ends(unit)
        chord = float(np.sqrt(np.sum((u - v) ** 2)))
        cond = max(1.0, chord / sep) ** 2
        ctx.small("ideal endpoints are lightlike", nrm, TOL_LIGHT * cond, unit=i)
        k = kl[idx]
        for j in range(2):
            s, res = C.segment_param(u, v, k[j])
            ctx.small("ideal endpoint collinear with the endpoints (Klein)", res,
                      1e-9 * cond, unit=i, which=j)
            ctx.small("ideal endpoint has Klein norm 1", np.sum(k[j] ** 2) - 1.0,
                      1e-8 * cond, unit=i, which=j)
        d_id = max(np.max(np.abs(k[0] - u)), np.max(np.abs(k[1] - v)))
        d_sw = max(np.max(np.abs(k[0] - v)), np.max(np.abs(k[1] - u)))
        ctx.small("ideal endpoints are the two ends of the chord (as a set)",
                  min(d_id, d_sw), 1e-8 * cond, unit=i, got=k, want=[u, v])
        # the endpoints lie between the two ideal endpoints
        for name, x in (("p", p), ("q", q)):
            s, res = C.segment_param(k[0], k[1], x)
            ctx.check(-1e-7 * cond <= s <= 1 + 1e-7 * cond and res <= 1e-8 * cond,
                      "endpoint lies on the chord between the ideal endpoints", s=s,
                      res=res, unit=i, which=name)
        g = gk[idx]
        d_id = max(np.max(np.abs(g[0] - k[0])), np.max(np.abs(g[1] - k[1])))
        ctx.small("Segment.geodesic() has the ideal endpoints as endpoints", d_id, 1e-12,
                  unit=i)


# ---------------------------------------------------------------------------
# law 2: centre / radius
def sep_factor(unit):
    """extrapolation factor chord / |p-q| (Klein) of the library's route endpoints ->
    ideal endpoints; an ideal point off the light cone by delta moves by sqrt(delta) in the
    conformal models, which is where the 1e-8 below comes from"""
    p, q = np.array(unit["p"], dtype=float), np.array(unit["q"], dtype=float)
    u, v = unit_ends(unit)
    return max(1.0, float(np.sqrt(np.sum((u - v) ** 2)) / np.sqrt(np.sum((p - q) ** 2))))


def circle_checks(ctx, model, c, r, pts_model, tag, scale=1.0, unit=0, extra=0.0):
    """points on the sphere, sphere orthogonal to the boundary"""
    c = np.asarray(c, dtype=float)
    for j, x in enumerate(pts_model):
        d = float(np.sqrt(np.sum((x - c) ** 2)))
        ctx.small("%s: point on the reported sphere (%s)" % (tag, model), d - r,
                  (TOL_ON * (1 + r) + extra) * scale, unit=unit, which=j, centre=c,
                  radius=r, point=x)
    if model == "poincare":
        ctx.small("%s: sphere orthogonal to the unit sphere |c|^2 = r^2+1" % tag,
                  c @ c - r * r - 1.0, TOL_ORTH_P * (1 + r * r), unit=unit, centre=c,
                  radius=r)
    else:
        ctx.small("%s: centre on the boundary (half-space)" % tag, c[-1],
                  (TOL_ORTH_H * (1 + r) + extra) * scale, unit=unit, centre=c, radius=r)


def body_circle_orthogonal(case, ctx):
    n, shape, model = case["n"], tuple(case["shape"]), case["model"]
    seg = build_segment(case, ctx)
    obj = seg.geodesic() if case["obj"] == "geodesic" else seg
    label_common(ctx, case, ["model=" + model, "obj=" + case["obj"]])
    if not_origin(case["units"]):
        ctx.label("not-origin")
    centre, radius = obj.sphere_parameters(lib_model(case))
    ctx.label("model-spelled=%s" % (lib_model(case),))
    centre, radius = np.array(centre), np.array(radius)
    ctx.check(centre.shape == shape + (n,), "centre shape", got=centre.shape)
    ctx.check(radius.shape == shape, "radius shape", got=radius.shape)
    # the object answers for itself also after an image of it has been derived and queried
    G_ = hyperbolic.Point(np.array([0.3] + [0.1] * (n - 1)), model="klein").origin_to()
    img = G_ @ obj
    img.sphere_parameters(model)
    c_again, r_again = obj.sphere_parameters(model=model)
    ctx.check(np.array_equal(np.array(c_again), centre, equal_nan=True) and
              np.array_equal(np.array(r_again), radius, equal_nan=True),
              "sphere_parameters of the original, asked again after its image was queried, "
              "are what they were")
    if n == 2:
        # positional and keyword arguments mean what the signature says: (degrees, model)
        cp_kw = obj.circle_parameters(degrees=False, model=lib_model(case))
        cp_pos = obj.circle_parameters(False, model)
        for a_, b_ in zip(cp_kw, cp_pos):
            ctx.check(np.array_equal(np.array(a_), np.array(b_), equal_nan=True),
                      "circle_parameters(False, model) = circle_parameters(degrees=False, "
                      "model=model)")
    for i, idx in enumerate(unit_iter(shape)):
        unit = case["units"][i]
        p, q = np.array(unit["p"], dtype=float), np.array(unit["q"], dtype=float)
        u, v = unit_ends(unit)
        c, r = centre[idx], float(radius[idx])
        off = C.klein_line_offset(u, v)
        if model == "poincare" and off < 1e-7:
            ctx.label("through-origin")
            continue          # the straight-line limit has its own law
        ctx.check(np.all(np.isfinite(c)) and np.isfinite(r) and r > 0,
                  "finite centre and positive radius", centre=c, radius=r, unit=i)
        pm, qm, um, vm = [to_model(x, model) for x in (p, q, u, v)]
        scale = hs_size(um, vm) if model == "halfspace" else 1.0
        # samples of the whole geodesic
        samples = [to_model(np.array(chord_point(list(u), list(v), t)), model)
                   for t in (-2.0, -0.5, 0.0, 0.7, 2.5)]
        extra = 1e-8 * sep_factor(unit)
        circle_checks(ctx, model, c, r, [pm, qm, um, vm] + samples, case["obj"], scale, i,
                      extra)
        # against the independent circle through p, q
        if model == "poincare":
            c0, r0 = C.orth_circle_poincare(pm, qm)
        else:
            c0, r0 = C.orth_circle_halfspace(pm, qm)
        sep = float(np.sqrt(np.sum((pm - qm) ** 2)))
        if c0 is not None and r0 <= 100.0 and sep > 1e-2 * min(1.0, r0):
            tol = (1e-5 * (1 + r0) + extra) * scale / min(1.0, sep / min(1.0, r0))
            ctx.small("radius vs independent orthogonal circle through the endpoints",
                      r - r0, tol, unit=i, got=r, want=r0)
            ctx.small("centre vs independent orthogonal circle through the endpoints",
                      c - c0, tol, unit=i, got=c, want=c0)
        if 0.05 < r < 50:
            ctx.label("radius-in-(0.05,50)")


# ---------------------------------------------------------------------------
# law 3: angles and arcs (n = 2)
def arc_checks(ctx, model, c, r, th, ends_klein, ends_model, interior, tag, scale, unit,
               extra=0.0):
    """th = reported (theta0, theta1) in radians; ends_* = the two endpoints"""
    th0, th1 = float(th[0]), float(th[1])
    want = [C.angle_of(c, x) for x in ends_model]
    atol = 1e-6 + (1e-6 + 3 * extra) * scale / max(r, 1e-3)
    ctx.small("%s: reported angles are the endpoints' angles about the centre (as a set)"
              % tag, C.pair_as_set_defect((th0, th1), want), atol, unit=unit, got=[th0, th1],
              want=want)
    # the order of the two angles is decidable only if the positional uncertainty that the
    # tolerances grant is well below the size of the arc (and, in the half-space, below
    # the heights of interior endpoints: the reported centre may sit that much above 0)
    delta = (TOL_ARC + 3 * extra) * scale
    size = float(np.sqrt(np.sum((ends_model[0] - ends_model[1]) ** 2)))
    resolved = delta <= 0.05 * size
    if model == "halfspace" and interior:
        resolved = resolved and delta <= 0.2 * min(ends_model[0][-1], ends_model[1][-1])
    if not resolved:
        ctx.label("arc-order-unresolved(ill-conditioned)")
        return
    ctx.label("arc-checked")
    sweep = C.ccw_sweep(th0, th1)
    ctx.check(sweep <= math.pi + 2 * atol,
              "%s: the counter-clockwise arc is at most a half circle" % tag, sweep=sweep,
              unit=unit)
    pts = C.arc_points(c, r, th0, th1, TS)
    a, b = ends_klein
    # orient: the arc runs from the endpoint at th0 to the endpoint at th1
    if C.ang_diff(th0, want[0]) > C.ang_diff(th0, want[1]):
        a, b = b, a
        ends_model = ends_model[::-1]
    tol = (TOL_ARC + 3 * extra) * scale
    klen = float(np.sqrt(np.sum((np.asarray(a) - np.asarray(b)) ** 2)))
    for t, x in zip(TS, pts):
        if model == "poincare":
            inside = x @ x < 1.0
        else:
            inside = x[-1] > 0.0
        ctx.check(inside, "%s: arc point inside the model" % tag, t=t, point=x, unit=unit,
                  thetas=[th0, th1])
        xk = from_model(x, model)
        s, res = C.segment_param(a, b, xk)
        ctx.small("%s: arc point on the Klein chord of the endpoints" % tag, res, tol,
                  unit=unit, t=t, point=x)
        stol = tol / klen
        ctx.check(-stol <= s <= 1 + stol, "%s: arc point between the endpoints" % tag,
                  s=s, t=t, unit=unit, thetas=[th0, th1], stol=stol)
        if interior:
            dist = H.dist_poincare if model == "poincare" else H.dist_halfspace
            dpq = float(dist(ends_model[0], ends_model[1]))
            defect = float(dist(ends_model[0], x) + dist(x, ends_model[1])) - dpq
            # a point within Euclidean tol of the geodesic is within hyperbolic eps of it
            # (conformal factor of the model at x), and then the defect is at most 2 eps
            conf = 2.0 / (1.0 - x @ x) if model == "poincare" else 1.0 / x[-1]
            ctx.small("%s: d(p,x)+d(x,q) = d(p,q) on the arc (harness metric)" % tag,
                      defect, 2 * tol * conf + 1e-9 * (1 + dpq), unit=unit, t=t)
    # monotone: s increases along the arc (the arc is traversed once, from a to b)
    ss = [C.segment_param(a, b, from_model(x, model))[0] for x in pts]
    ctx.check(all(ss[i] < ss[i + 1] + tol / klen for i in range(len(ss) - 1)),
              "%s: the arc runs monotonically from the first to the second endpoint" % tag,
              s=ss, unit=unit)


def body_arc(case, ctx):
    n, shape, model = 2, tuple(case["shape"]), case["model"]
    seg = build_segment(case, ctx)
    label_common(ctx, case, ["model=" + model])
    if not_origin(case["units"]):
        ctx.label("not-origin")
    geo = seg.geodesic()
    for tag, obj in (("segment", seg), ("geodesic", geo)):
        centre, radius, thetas = obj.circle_parameters(degrees=False, model=lib_model(case))
        centre, radius, thetas = np.array(centre), np.array(radius), np.array(thetas)
        ctx.check(thetas.shape == shape + (2,), "thetas shape", got=thetas.shape)
        c2, r2 = obj.sphere_parameters(model)
        ctx.check(np.array_equal(centre, np.array(c2), equal_nan=True)
                  and np.array_equal(radius, np.array(r2), equal_nan=True),
                  "circle_parameters centre/radius = sphere_parameters", got=centre,
                  want=c2)
        for i, idx in enumerate(unit_iter(shape)):
            unit = case["units"][i]
            ctx.label("kind=" + unit["kind"])
            p, q = np.array(unit["p"], dtype=float), np.array(unit["q"], dtype=float)
            u, v = unit_ends(unit)
            if model == "poincare" and C.klein_line_offset(u, v) < 1e-7:
                ctx.label("through-origin")
                continue
            c, r = centre[idx], float(radius[idx])
            ctx.check(np.all(np.isfinite(c)) and np.isfinite(r) and r > 0
                      and np.all(np.isfinite(thetas[idx])),
                      "finite circle parameters", centre=c, radius=r, thetas=thetas[idx])
            um, vm = to_model(u, model), to_model(v, model)
            scale = hs_size(um, vm) if model == "halfspace" else 1.0
            if tag == "segment":
                ek = [p, q]
                interior = unit["kind"] == "ii"
            else:
                ek = [u, v]
                interior = False
            em = [to_model(x, model) for x in ek]
            extra = 1e-8 * sep_factor(unit)
            circle_checks(ctx, model, c, r, em, tag, scale, i, extra)
            arc_checks(ctx, model, c, r, thetas[idx], ek, em, interior, tag, scale, i,
                       extra)
            ctx.label("angles-checked")
            if 0.05 < r < 50:
                ctx.label("radius-in-(0.05,50)")
            if model == "halfspace":
                # right to left: the arc starts at the endpoint with the larger abscissa
                x0 = c[0] + r * math.cos(float(thetas[idx][0]))
                x1 = c[0] + r * math.cos(float(thetas[idx][1]))
                ctx.check(x0 >= x1 - 1e-9 * scale, "half-space arc runs right to left",
                          x0=x0, x1=x1, unit=i)


# ---------------------------------------------------------------------------
# law 4: degrees vs radians
def body_degrees(case, ctx):
    shape, model = tuple(case["shape"]), case["model"]
    seg = build_segment(case, ctx)
    label_common(ctx, case, ["model=" + model, "not-origin", "angles-checked",
                             "radius-in-(0.05,50)"])
    for tag, obj in (("segment", seg), ("geodesic", seg.geodesic())):
        cr, rr, tr = obj.circle_parameters(degrees=False, model=model)
        cd, rd, td = obj.circle_parameters(degrees=True, model=model)
        cdef, rdef, tdef = obj.circle_parameters(model=model)
        ctx.check(np.array_equal(np.array(cd), np.array(cr), equal_nan=True), tag + ": centre independent of the unit of angle")
        ctx.check(np.array_equal(np.array(rd), np.array(rr), equal_nan=True), tag + ": radius independent of the unit of angle")
        fin = np.isfinite(np.array(tr))
        ctx.check(np.array_equal(fin, np.isfinite(np.array(td))), tag + ": same NaN pattern")
        ctx.close(tag + ": degrees = radians * 180/pi", np.array(td)[fin],
                  (np.array(tr) * 180.0 / math.pi)[fin], rtol=1e-13, atol=1e-12)
        ctx.check(np.array_equal(np.array(tdef), np.array(td), equal_nan=True), tag + ": default unit of angle is degrees")
        ctx.check(np.all(np.abs(np.array(tr)[fin]) <= TWO_PI + 1e-9),
                  "radians within [-2pi,2pi]", thetas=tr)
    # same clause for horocyclic arcs
    arc_case = case.get("arc")
    if arc_case:
        arc = build_horoarc(arc_case)
        m = arc_case["model"]
        cr, rr, tr = arc.circle_parameters(model=m, degrees=False)
        cd, rd, td = arc.circle_parameters(model=m, degrees=True)
        cdef, rdef, tdef = arc.circle_parameters(model=m)
        ctx.close("horoarc: degrees = radians * 180/pi", np.array(td),
                  np.array(tr) * 180.0 / math.pi, rtol=1e-13, atol=1e-12)
        ctx.check(np.array_equal(np.array(tdef), np.array(td), equal_nan=True), "horoarc" + ": default unit of angle is degrees")
        ctx.check(np.array_equal(np.array(cd), np.array(cr), equal_nan=True), "horoarc" + ": centre independent of the unit of angle")
        ctx.label("horoarc")


# ---------------------------------------------------------------------------
# law 5: straight line limit (Poincare)
@st.composite
def straight_case(draw):
    n = draw(st.sampled_from([2, 2, 3]))
    shape = draw(st.sampled_from([[], [], [2]]))
    units = []
    for _ in range(gen.prod(shape)):
        d = draw(gen.directions(n))           # direction of the chord
        e = draw(gen.directions(n))           # offset direction (made orthogonal to d)
        dot = sum(a * b for a, b in zip(d, e))
        e = [a - dot * b for a, b in zip(e, d)]
        ne = math.sqrt(sum(a * a for a in e))
        if ne < 1e-3:
            # pick a coordinate axis not parallel to d
            j = min(range(n), key=lambda k: abs(d[k]))
            e = [1.0 if k == j else 0.0 for k in range(n)]
            dot = sum(a * b for a, b in zip(d, e))
            e = [a - dot * b for a, b in zip(e, d)]
            ne = math.sqrt(sum(a * a for a in e))
        e = [a / ne for a in e]
        h = draw(st.sampled_from([0.0, 0.0, 1e-12, 1e-9, 1e-6, 1e-4, 1e-2]))
        a = draw(fl(-0.95, 0.949))
        b = draw(fl(a + 1e-3, 0.95))
        if draw(st.integers(0, 3)) == 0:
            a = 0.0 if b > 1e-3 else a        # an endpoint at the foot of the perpendicular
        if draw(st.booleans()):
            a, b = b, a
        p = [h * x + a * y for x, y in zip(e, d)]
        q = [h * x + b * y for x, y in zip(e, d)]
        units.append(dict(p=p, q=q, kind="ii", h=h))
    return dict(n=n, shape=shape, units=units, ctor=draw(st.sampled_from([0, 1, 2, 3, 4, 5, 6])),
                model="poincare", obj=draw(st.sampled_from(["segment", "geodesic"])))


def body_straight(case, ctx):
    n, shape = case["n"], tuple(case["shape"])
    seg = build_segment(case, ctx)        # must not raise
    obj = seg.geodesic() if case["obj"] == "geodesic" else seg
    label_common(ctx, case, ["obj=" + case["obj"]])
    centre, radius = obj.sphere_parameters("poincare")
    centre, radius = np.array(centre), np.array(radius)
    thetas = None
    if n == 2:
        _, _, thetas = obj.circle_parameters(degrees=False, model="poincare")
        thetas = np.array(thetas)
    kl = np.array(seg.ideal_endpoint_coords("klein"))
    for i, idx in enumerate(unit_iter(shape)):
        unit = case["units"][i]
        p, q = np.array(unit["p"], dtype=float), np.array(unit["q"], dtype=float)
        u, v = true_ideal_ends(p, q)
        off = C.klein_line_offset(p, q)
        ctx.label("h=%g" % unit["h"])
        # ideal endpoints stay correct in the limit
        d_id = max(np.max(np.abs(kl[idx][0] - u)), np.max(np.abs(kl[idx][1] - v)))
        d_sw = max(np.max(np.abs(kl[idx][0] - v)), np.max(np.abs(kl[idx][1] - u)))
        sep = float(np.sqrt(np.sum((p - q) ** 2)))
        ctx.small("ideal endpoints of a chord through/near the origin", min(d_id, d_sw),
                  1e-8 * max(1.0, 2.0 / sep) ** 2, unit=i)
        c, r = centre[idx], float(radius[idx])
        finite = bool(np.all(np.isfinite(c)) and np.isfinite(r))
        if not finite or r > 1e6:
            ctx.label("limit:nonfinite" if not finite else "limit:huge-radius")
            # NaN/inf (or a huge radius) is legitimate only when the chord really passes
            # (nearly) through the origin
            ctx.check(off <= max(1e-7, 2.0 / 1e6), "non-finite or huge circle only for "
                      "chords through the origin", offset=off, centre=c, radius=r, unit=i)
            if not finite:
                ctx.check(off <= 1e-7, "NaN/inf only in the exact straight-line limit",
                          offset=off, centre=c, radius=r, unit=i)
            continue
        ctx.label("limit:finite")
        ctx.check(r > 0, "positive radius", radius=r)
        pm, qm = H.klein_to_poincare(p), H.klein_to_poincare(q)
        um, vm = u, v
        ends = [pm, qm] if case["obj"] == "segment" else [um, vm]
        # harness rounding in |x-c| - r is ~ 1e-15 r
        for j, x in enumerate([pm, qm, um, vm]):
            d = float(np.sqrt(np.sum((x - c) ** 2)))
            ctx.small("near-origin chord: point on the circle", d - r,
                      1e-5 + 1e-5 * min(r, 100.0) + 1e-13 * r, unit=i, which=j, centre=c,
                      radius=r)
        ctx.small("near-origin chord: orthogonal to the unit sphere",
                  (c @ c - r * r - 1.0) / (1 + r * r), TOL_ORTH_P, unit=i)
        # radius vs closed form sqrt(1/off^2 - 1)
        if off > 1e-10:
            r0 = math.sqrt(1.0 / off ** 2 - 1.0)
            ctx.small("near-origin chord: radius vs closed form", (r - r0) / r0,
                      1e-6 + 1e-15 / off, unit=i, got=r, want=r0)
        if thetas is not None and case["obj"] == "segment" and r < 1e4:
            ek = [p, q]
            arc_checks(ctx, "poincare", c, r, thetas[idx], ek, ends, True,
                       "near-origin segment", 1.0 + 1e-10 * r * r, i)
            ctx.label("angles-checked")


# ---------------------------------------------------------------------------
# law 6: horospheres
@st.composite
def horosphere_case(draw):
    n = draw(st.sampled_from([2, 3, 4]))
    shape = _shape(draw)
    units = []
    for _ in range(gen.prod(shape)):
        u = draw(gen.ideal_direction(n, away_from_inf=D_INF))
        x = draw(gen.klein_point(n, rmax=0.999))
        units.append(dict(u=u, x=x))
    return dict(n=n, shape=shape, units=units,
                model=draw(st.sampled_from(["poincare", "halfspace"])),
                ctor=draw(st.integers(0, 1)))


def body_horosphere(case, ctx):
    n, shape, model = case["n"], tuple(case["shape"]), case["model"]
    U = np.array([u["u"] for u in case["units"]], dtype=float).reshape(shape + (n,))
    X = np.array([u["x"] for u in case["units"]], dtype=float).reshape(shape + (n,))
    if case["ctor"] == 0:
        hs = hyperbolic.Horosphere(_proj(U), _proj(X))
    else:
        hs = hyperbolic.Horosphere(np.stack([_proj(U), _proj(X)], axis=-2))
    ctx.check(hs.shape == shape, "horosphere composite shape", got=hs.shape, want=shape)
    # an ideal centre with integer coordinates, given as an integer-typed array ((5, 3, 4):
    # exactly on the light cone), with the reference points of the case: the Poincare sphere
    # passes through each reference point and is tangent to the boundary
    ic = np.zeros(n + 1, dtype=np.int64)
    ic[:3] = [5, 3, 4]
    for i, idx in enumerate(unit_iter(shape)):
        x = np.array(case["units"][i]["x"], dtype=float)
        hi = hyperbolic.Horosphere(ic.copy(), _proj(x))
        ci, ri = hi.sphere_parameters("poincare")
        ci, ri = np.array(ci, dtype=float), float(np.asarray(ri))
        xp_ = H.klein_to_poincare(x)
        ui = ic[1:] / 5.0
        ti = 1e-6 + 4e-8 / float(np.sum((ui - xp_) ** 2))
        ctx.small("integer-typed ideal centre: reference point on the sphere",
                  float(np.sqrt(np.sum((xp_ - ci) ** 2))) - ri, ti, unit=i)
        ctx.small("integer-typed ideal centre: tangent to the unit sphere",
                  float(np.sqrt(ci @ ci)) + ri - 1.0, 1e-7, unit=i)
        ctx.small("integer-typed ideal centre: centre towards (3/5, 4/5)",
                  ci - (1 - ri) * ui, 1e-7, unit=i)
    centre, radius = hs.sphere_parameters(model)
    centre, radius = np.array(centre), np.array(radius)
    ctx.check(centre.shape == shape + (n,) and radius.shape == shape,
              "sphere parameter shapes", centre=centre.shape, radius=radius.shape)
    label_common(ctx, case, ["model=" + model, "not-origin"])
    for i, idx in enumerate(unit_iter(shape)):
        u = np.array(case["units"][i]["u"], dtype=float)
        x = np.array(case["units"][i]["x"], dtype=float)
        c, r = centre[idx], float(radius[idx])
        ctx.check(np.all(np.isfinite(c)) and np.isfinite(r) and r > 0,
                  "finite centre, positive radius", centre=c, radius=r)
        xm, um = to_model(x, model), to_model(u, model)
        if model == "poincare":
            c0, r0 = C.horosphere_poincare(u, xm)
            scale = 1.0
            ctx.small("tangent to the unit sphere: |c| + r = 1", math.sqrt(c @ c) + r - 1.0,
                      1e-7, unit=i)
            ctx.small("centre on the ray towards the ideal centre", c - (1 - r) * u, 1e-7,
                      unit=i)
        else:
            c0, r0 = C.horosphere_halfspace(um[:-1], xm)
            scale = hs_size(um, xm)
            ctx.small("tangent to the boundary: height of centre = radius", c[-1] - r,
                      1e-9 * (1 + r), unit=i)
            ctx.small("centre above the ideal centre", c[:-1] - um[:-1], 1e-6 * scale,
                      unit=i)
        # the Poincare radius |u-x|^2 / (2(1-u.x)) is a quotient of two small numbers when
        # the reference is close to the ideal centre; u carries ~1e-8 of sqrt noise
        xp = H.klein_to_poincare(x)
        condt = 2e-8 / float(np.sum((u - xp) ** 2))
        tol = (1e-6 * (1 + r0) + condt) * scale
        d = float(np.sqrt(np.sum((xm - c) ** 2)))
        ctx.small("reference point on the sphere", d - r, tol, unit=i, centre=c, radius=r)
        ctx.small("radius vs closed form", r - r0, tol, unit=i, got=r, want=r0)
        ctx.small("centre vs closed form", c - c0, tol, unit=i, got=c, want=c0)
        # another point of the same horosphere (harness Busemann level: <x,c>/<y,c> equal)
        if max(abs(t) for t in case["units"][i]["x"]) == 0:
            ctx.label("reference-at-origin")


# ---------------------------------------------------------------------------
# law 7: horocyclic arcs
@st.composite
def horoarc_case(draw):
    shape = _shape(draw)
    units = []
    for _ in range(gen.prod(shape)):
        a = draw(fl(D_INF, TWO_PI - D_INF))
        rho = draw(st.one_of(fl(0.05, 0.95), st.sampled_from([0.5])))
        f1 = draw(fl(0.1, TWO_PI - 0.1 - 0.06))
        w = draw(fl(0.05, TWO_PI - 0.1 - f1))
        f2 = f1 + w
        if draw(st.booleans()):
            f1, f2 = f2, f1
        units.append(dict(a=a, rho=rho, f1=f1, f2=f2))
    return dict(n=2, shape=shape, units=units,
                model=draw(st.sampled_from(["poincare", "halfspace"])),
                ctor=draw(st.integers(0, 1)))


def horo_unit_points(unit):
    """Poincare coordinates of (ideal centre u, p1, p2) for a horocycle unit: the
    Euclidean circle of radius rho tangent to the unit circle at angle a; f = angle
    about the circle's centre measured from the tangency point"""
    a, rho = unit["a"], unit["rho"]
    u = np.array([math.cos(a), math.sin(a)])
    cc = (1.0 - rho) * u
    pts = []
    for f in (unit["f1"], unit["f2"]):
        pts.append(cc + rho * np.array([math.cos(a + f), math.sin(a + f)]))
    return u, pts[0], pts[1]


def build_horoarc(case):
    shape = tuple(case["shape"])
    Us, P1, P2 = [], [], []
    for unit in case["units"]:
        u, p1, p2 = horo_unit_points(unit)
        Us.append(u)
        P1.append(H.poincare_to_klein(p1))
        P2.append(H.poincare_to_klein(p2))
    U = np.array(Us).reshape(shape + (2,))
    P1 = np.array(P1).reshape(shape + (2,))
    P2 = np.array(P2).reshape(shape + (2,))
    if case["ctor"] == 0:
        return hyperbolic.HorosphereArc(_proj(U), _proj(P1), _proj(P2))
    return hyperbolic.HorosphereArc(hyperbolic.Point(U.copy(), model="klein"),
                                    hyperbolic.Point(P1.copy(), model="klein"),
                                    hyperbolic.Point(P2.copy(), model="klein"))


def body_horoarc(case, ctx):
    shape, model = tuple(case["shape"]), case["model"]
    arc = build_horoarc(case)
    ctx.check(arc.shape == shape, "arc composite shape", got=arc.shape, want=shape)
    label_common(ctx, case, ["model=" + model, "not-origin", "angles-checked",
                             "unit-object" if shape == () else "composite"])
    centre, radius, thetas = arc.circle_parameters(model=model, degrees=False)
    centre, radius, thetas = np.array(centre), np.array(radius), np.array(thetas)
    ctx.check(centre.shape == shape + (2,) and radius.shape == shape
              and thetas.shape == shape + (2,), "circle parameter shapes",
              centre=centre.shape, radius=radius.shape, thetas=thetas.shape)
    for i, idx in enumerate(unit_iter(shape)):
        unit = case["units"][i]
        u, p1, p2 = horo_unit_points(unit)
        c, r = centre[idx], float(radius[idx])
        th0, th1 = float(thetas[idx][0]), float(thetas[idx][1])
        ctx.check(np.all(np.isfinite(c)) and np.isfinite(r) and r > 0
                  and math.isfinite(th0) and math.isfinite(th1), "finite parameters",
                  centre=c, radius=r, thetas=[th0, th1])
        if model == "poincare":
            um, m1, m2 = u, p1, p2
            scale = 1.0
            c0, r0 = (1 - unit["rho"]) * u, unit["rho"]
        else:
            um = H.poincare_to_halfspace(u)
            um[-1] = 0.0
            m1, m2 = H.poincare_to_halfspace(p1), H.poincare_to_halfspace(p2)
            scale = hs_size(um, m1, m2)
            c0, r0 = C.horosphere_halfspace(um[:-1], m1)
        # (an ideal centre is only known to sqrt(ulp) ~ 1e-8 in the disc; the circle through a
        # reference point at Euclidean distance e from it moves by a few 1e-8 / e^2 - the
        # thorough tier at seed 4 met 2.05e-8 / e^2 with the reference point 0.1 from the
        # centre)
        condt = 1e-7 / float(np.sum((u - p1) ** 2))
        tol = (1e-6 * (1 + r0) + condt) * scale
        ctx.small("horocycle radius vs closed form", r - r0, tol, unit=i, got=r, want=r0)
        ctx.small("horocycle centre vs closed form", c - c0, tol, unit=i, got=c, want=c0)
        for name, x in (("p1", m1), ("p2", m2), ("ideal centre", um)):
            d = float(np.sqrt(np.sum((x - c) ** 2)))
            ctx.small("%s on the reported circle" % name, d - r, tol, unit=i)
        want = [C.angle_of(c, m1), C.angle_of(c, m2)]
        atol = 1e-6 + tol / r
        ctx.small("reported angles are the endpoints' angles (as a set)",
                  C.pair_as_set_defect((th0, th1), want), atol, unit=i, got=[th0, th1],
                  want=want)
        thc = C.angle_of(c, um)
        margin = min(C.ang_diff(thc, want[0]), C.ang_diff(thc, want[1]))
        if margin > 20 * atol:
            ctx.check(not C.on_ccw_arc(thc, th0, th1),
                      "the counter-clockwise arc does not contain the ideal centre",
                      thetas=[th0, th1], centre_angle=thc, unit=i)
            ctx.label("centre-exclusion-checked")
        else:
            ctx.label("centre-too-close-to-an-endpoint")
        # every sampled arc point is a point of the model on the horocycle, and - mapped
        # to the generating Poincare circle - lies on the side away from the tangency
        pts = C.arc_points(c, r, th0, th1, TS)
        f_lo, f_hi = sorted([unit["f1"], unit["f2"]])
        cc = (1.0 - unit["rho"]) * u
        for t, x in zip(TS, pts):
            inside = (x @ x < 1.0) if model == "poincare" else (x[-1] > 0)
            ctx.check(inside, "arc point inside the model", t=t, point=x, unit=i)
            xp = x if model == "poincare" else H.halfspace_to_poincare(x)
            ctx.small("arc point on the generating horocycle",
                      np.sqrt(np.sum((xp - cc) ** 2)) - unit["rho"], 1e-5 * scale, unit=i)
            f = (math.atan2(xp[1] - cc[1], xp[0] - cc[0]) - unit["a"]) % TWO_PI
            ctx.check(f_lo - 1e-4 * scale <= f <= f_hi + 1e-4 * scale,
                      "arc point between the two endpoints on the side away from the "
                      "ideal centre", f=f, lo=f_lo, hi=f_hi, t=t, unit=i)


# ---------------------------------------------------------------------------
# law 8: subspaces and hyperplanes
@st.composite
def frame(draw, m, k):
    """k unit vectors of R^m (k <= m+1): a perturbed orthonormal frame, for k = m+1
    completed by the normalised negative sum"""
    if m == 1:
        s = draw(st.sampled_from([-1.0, 1.0]))
        return [[s], [-s]][:k]
    Q = np.array(draw(gen.orthogonal_matrix(m)))
    rows = [Q[i] for i in range(min(k, m))]
    if k == m + 1:
        neg = -np.sum(Q, axis=0)
        rows.append(neg / np.sqrt(neg @ neg))
    out = []
    for r in rows:
        noise = np.array([draw(fl(-0.3, 0.3)) for _ in range(m)])
        if draw(st.booleans()):
            noise = 0 * noise
        w = r + noise
        out.append([float(t) for t in (w / np.sqrt(w @ w))])
    return out


@st.composite
def subspace_unit(draw, n, k):
    m = n - 1
    rho = math.exp(draw(fl(math.log(0.05), math.log(15.0))))
    amax = 30.0 - rho
    if m == 1:
        a = [draw(fl(-amax, amax))]
    else:
        d = draw(gen.directions(m))
        s = draw(st.one_of(fl(0.0, amax), fl(0.0, 2.0), st.just(0.0)))
        a = [s * x for x in d]
    dirs = draw(frame(m, k))
    return dict(a=a, rho=rho, dirs=dirs)


@st.composite
def subspace_case(draw):
    n = draw(st.sampled_from([2, 3, 3, 4, 4]))
    k = draw(st.integers(2, n))
    shape = _shape(draw)
    units = [draw(subspace_unit(n, k)) for _ in range(gen.prod(shape))]
    kind = "subspace"
    if k == n and draw(st.integers(0, 2)) == 0:
        kind = "hyperplane"
    return dict(n=n, k=k, shape=shape, units=units, kind=kind,
                nscale=draw(gen.scalars_pm()),
                coef=[draw(fl(0.05, 1.0)) for _ in range(3 * n)])


def subspace_ideal_points(unit):
    """half-space base points b_i = a + rho d_i and the corresponding unit vectors of R^n
    (ideal points in Klein/Poincare coordinates)"""
    a = np.array(unit["a"], dtype=float)
    B = np.array([a + unit["rho"] * np.array(d, dtype=float) for d in unit["dirs"]])
    hs = np.concatenate([B, np.zeros((B.shape[0], 1))], axis=-1)
    U = H.halfspace_to_poincare(hs)
    U = U / np.sqrt(np.sum(U * U, axis=-1, keepdims=True))
    return B, U


def affine_span_offset(U):
    """Euclidean distance from the origin to the affine span of the rows of U"""
    base = U[0]
    D = (U[1:] - base).T
    coef, *_ = np.linalg.lstsq(D, -base, rcond=None)
    foot = base + D @ coef
    return float(np.sqrt(foot @ foot))


def minkowski_normal(U):
    """Minkowski normal of the hyperplane spanned by the n ideal points (1,U_i) of
    R^(n,1): null vector of the n x (n+1) matrix [(1,U_i) J] (harness SVD)"""
    P = _proj(U)
    A = P.copy()
    A[:, 0] *= -1.0
    _, s, vt = np.linalg.svd(A)
    return vt[-1], float(s[-2] / s[0])


def body_subspace(case, ctx):
    n, k, shape = case["n"], case["k"], tuple(case["shape"])
    Bs, Us = [], []
    for unit in case["units"]:
        B, U = subspace_ideal_points(unit)
        Bs.append(B)
        Us.append(U)
    label_common(ctx, case, ["k=%d" % k, "kind=" + case["kind"], "not-origin"])
    if k >= 3:
        ctx.label("dim>=2")
    cnt = len(case["units"])
    if case["kind"] == "hyperplane":
        normals = np.array([minkowski_normal(U)[0] for U in Us]) * case["nscale"]
        if shape == ():
            data = normals[0].copy()
        else:
            data = normals.reshape(shape + (1, n + 1)).copy()
        obj = hyperbolic.Hyperplane(data)
    else:
        data = np.array([_proj(U) for U in Us]).reshape(shape + (k, n + 1))
        obj = hyperbolic.Subspace(data.copy())
    ctx.check(obj.shape == shape, "composite shape", got=obj.shape, want=shape)
    ib = np.array(obj.ideal_basis)
    ctx.check(ib.shape == shape + (k, n + 1), "ideal basis shape", got=ib.shape)
    ibk = ib[..., 1:] / ib[..., :1]        # Klein coordinates of the object's ideal basis
    coef = np.array(case["coef"], dtype=float).reshape(3, n)[:, :k]
    for model in ("poincare", "halfspace"):
        centre, radius = obj.sphere_parameters(model)
        centre, radius = np.array(centre), np.array(radius)
        ctx.check(centre.shape == shape + (n,) and radius.shape == shape,
                  "sphere parameter shapes (%s)" % model, centre=centre.shape,
                  radius=radius.shape)
        for i, idx in enumerate(unit_iter(shape)):
            unit = case["units"][i]
            c, r = centre[idx], float(radius[idx])
            basis = ibk[idx]            # for a Subspace these are the generating points
            if case["kind"] == "hyperplane":
                # the library chose the ideal basis: it must consist of ideal points of
                # the generating hyperplane
                nv = minkowski_normal(Us[i])[0]
                pb = _proj(basis)
                ctx.small("hyperplane ideal basis is lightlike",
                          mink(pb, pb) / np.sum(pb * pb, axis=-1), 1e-8, unit=i)
                ctx.small("hyperplane ideal basis orthogonal to the normal",
                          mink(pb, nv[None, :]) / np.sqrt(np.sum(pb * pb, axis=-1)), 1e-8,
                          unit=i)
                near_inf = float(np.min(np.sqrt(np.sum(
                    (basis - np.array(_e0(n))) ** 2, axis=-1))))
                if model == "halfspace" and near_inf < D_INF:
                    ctx.label("hyperplane-basis-near-infinity:halfspace-skipped")
                    continue
            else:
                ctx.small("Subspace keeps the given ideal points", basis - Us[i], 1e-12)
            if model == "poincare":
                pts = list(basis)
                scale = 1.0
            else:
                pts = [to_model(b, "halfspace") for b in basis]
                scale = hs_size(*pts)
            off = affine_span_offset(Us[i])
            finite = bool(np.all(np.isfinite(c)) and np.isfinite(r))
            if model == "poincare" and (off < 1e-7 or (not finite and off < 1e-7)):
                # straight limit: the subspace passes through the origin of the ball
                ctx.label("through-origin")
                continue
            ctx.check(np.all(np.isfinite(c)) and np.isfinite(r) and r > 0,
                      "finite centre, positive radius (%s)" % model, centre=c, radius=r,
                      unit=i)
            if r > 1e3:
                ctx.label("huge-radius")
            tol_scale = scale
            for j, x in enumerate(pts):
                d = float(np.sqrt(np.sum((x - c) ** 2)))
                ctx.small("ideal basis point on the reported sphere (%s)" % model, d - r,
                          1e-7 * (1 + r) * tol_scale, unit=i, which=j, centre=c, radius=r,
                          point=x)
            if model == "poincare":
                ctx.small("subspace sphere orthogonal to the unit sphere",
                          c @ c - r * r - 1.0, TOL_ORTH_P * (1 + r * r), unit=i)
                r0 = math.sqrt(max(1.0 / off ** 2 - 1.0, 0.0))
                ctx.small("subspace sphere radius vs closed form sqrt(1/h^2-1)",
                          (r - r0) / (1 + r0), 1e-6 + 1e-14 / off, unit=i, got=r, want=r0)
            else:
                ctx.small("subspace sphere centred on the boundary", c[-1],
                          TOL_ORTH_H * (1 + r) * tol_scale, unit=i)
            # interior points of the subspace (positive combinations of the generating
            # ideal points) lie on the sphere "corresponding to this subspace"
            for row in coef:
                y = (row[:, None] * _proj(Us[i])).sum(axis=0)
                yk = y[1:] / y[0]
                ym = to_model(yk, model)
                d = float(np.sqrt(np.sum((ym - c) ** 2)))
                ctx.small("interior point of the subspace on the reported sphere (%s)"
                          % model, d - r, TOL_ON * (1 + r) * tol_scale, unit=i, point=ym,
                          centre=c, radius=r)
            if k == n and model == "halfspace":
                # the hyperplane is the hemisphere over the round sphere (a, rho)
                a0, rho = np.array(unit["a"], dtype=float), unit["rho"]
                ctx.small("hyperplane hemisphere radius vs generating sphere", r - rho,
                          1e-5 * (1 + rho) * scale, unit=i, got=r, want=rho)
                ctx.small("hyperplane hemisphere centre vs generating sphere",
                          c[:-1] - a0, 1e-5 * (1 + rho) * scale, unit=i)
    # boundary sphere: hyperplanes only (k = n points of R^(n-1))
    if k == n:
        skip = False
        if case["kind"] == "hyperplane":
            near = np.min(np.sqrt(np.sum((ibk - np.array(_e0(n))) ** 2, axis=-1)))
            skip = bool(near < D_INF)
        if skip:
            ctx.label("hyperplane-basis-near-infinity:boundary-skipped")
        else:
            bc, br = obj.boundary_sphere_parameters()
            bc, br = np.array(bc), np.array(br)
            ctx.check(bc.shape == shape + (n - 1,) and br.shape == shape,
                      "boundary sphere shapes", centre=bc.shape, radius=br.shape)
            for i, idx in enumerate(unit_iter(shape)):
                unit = case["units"][i]
                a0, rho = np.array(unit["a"], dtype=float), unit["rho"]
                pts = [to_model(b, "halfspace") for b in ibk[idx]]
                scale = hs_size(*pts)
                # conditioning of the sphere through k points: the frame is perturbed
                # orthonormal, simplex inradius ~ rho/k
                for j, x in enumerate(pts):
                    d = float(np.sqrt(np.sum((x[:-1] - bc[idx]) ** 2)))
                    ctx.small("ideal basis point on the boundary sphere", d - br[idx],
                              TOL_ON * (1 + rho) * scale, unit=i, which=j)
                ctx.small("boundary sphere radius vs generating sphere", br[idx] - rho,
                          1e-4 * (1 + rho) * scale, unit=i, got=br[idx], want=rho)
                ctx.small("boundary sphere centre vs generating sphere", bc[idx] - a0,
                          1e-4 * (1 + rho) * scale, unit=i, got=bc[idx], want=a0)
            ctx.label("boundary-sphere-checked")
    else:
        try:
            obj.boundary_sphere_parameters()
            ctx.label("boundary-sphere-lowdim:returned")
        except GeometryError:
            ctx.label("boundary-sphere-lowdim:refused")


# ---------------------------------------------------------------------------
def nt_main(labels):
    if "not-origin" not in labels:
        return False
    if "n>=3" in labels:
        return True
    return "angles-checked" in labels and "radius-in-(0.05,50)" in labels


def nt_any(labels):
    return "not-origin" in labels


def nt_sphere(labels):
    return "not-origin" in labels and ("n>=3" in labels or "radius-in-(0.05,50)" in labels)


@st.composite
def arc_case(draw):
    return draw(chords_case(dims=(2,)))


@st.composite
def degrees_full_case(draw):
    base = draw(chords_case(dims=(2,), free=False))
    base["arc"] = draw(horoarc_case())
    return base


LAWS = [
    Law("ideal_endpoints", chords_case(), body_ideal_endpoints, nt_any, quick=300,
        thorough=3600, shards=(2, 6)),
    Law("circle_through_endpoints_orthogonal", chords_case(), body_circle_orthogonal,
        nt_sphere, quick=300, thorough=3600, shards=(2, 6)),
    Law("arc_is_the_segment", arc_case(), body_arc, nt_main, quick=300, thorough=3600,
        shards=(2, 8)),
    Law("degrees_vs_radians", degrees_full_case(), body_degrees, nt_any, quick=80,
        thorough=1500, shards=(1, 2)),
    Law("straight_line_limit", straight_case(), body_straight, lambda l: True, quick=300,
        thorough=3600, shards=(1, 4)),
    Law("horosphere_sphere", horosphere_case(), body_horosphere, nt_any, quick=300,
        thorough=3600, shards=(1, 4)),
    Law("horoarc_excludes_centre", horoarc_case(), body_horoarc, nt_any, quick=300,
        thorough=3600, shards=(1, 4)),
    Law("subspace_sphere_contains_ideal_points", subspace_case(), body_subspace, nt_any,
        quick=250, thorough=3600, shards=(2, 6)),
]
