"""C07 - Coxeter automata accept exactly the geodesic / shortlex normal forms."""
import itertools
import collections
import numpy as np
from hypothesis import strategies as st

from ..core import Law, HarnessError
from ..oracles import tits as T

from geometry_tools import coxeter
from geometry_tools.automata import fsa
from geometry_tools.automata.fsa import FSAException

INF_CODES = [0, -1, -3]
ALPHA = "abcdefghijklmnopqrstuvwxyz"
# generator names usable in a diagram (all of one width, so that concatenated
# words can be cut back into generators)
NAME_SETS = [
    ["c", "a", "e", "b", "d"],          # single letters, not in alphabetical order
    ["x1", "y1", "x2", "y2", "z9"],     # two characters
    ["s4", "s3", "s2", "s1", "s0"],     # looks like the alphanum style, reversed
]

RULE = ("cases: a Coxeter matrix (rank 2: every label 2..12 and infinity; rank 3: every ordered triple "
        "over {2..7, inf}, exhaustive in both tiers; rank 4: every matrix over {2,3,inf} (thorough) and "
        "random ones over {2..7,inf}; rank 5 random), infinity written as 0, -1 or -3, handed to "
        "CoxeterGroup(matrix=..., generator_style=alpha|alphanum) or CoxeterGroup(diagram=...) with "
        "one of three name sets, a shuffled complete edge list and random edge orientations; all "
        "words up to length L (rank 2: 2m+2, rank 3: 8 quick / 11 thorough, rank 4: 6 / 8, rank 5: "
        "5 / 6): every reduced word (from the Tits oracle) and every one-letter extension of one is "
        "put to accepts(); enumerate_words is compared as a multiset; long words (<= 40) come from "
        "random walks in the automaton, random reduced words grown with the root oracle and their "
        "one-letter spoilings.  non-trivial = rank >= 3, infinite group (cosine form not positive "
        "definite), word length >= 4; distinct = distinct JSON case.")

ASSUMPTIONS = [
    "Coxeter matrices are symmetric with 1 on the diagonal and labels >= 2 or infinity (0 / negative)",
    "a diagram lists every pair of generators (CoxeterGroup(diagram=...) raises KeyError on a "
    "diagram that omits commuting pairs; not part of this property), generator names are strings "
    "of one common width",
    "the order of the generators is CoxeterGroup.ordered_gens (for matrix= the documented a,b,c.. / "
    "s0,s1,.. order; for diagram= checked to be a permutation of the names consistent with "
    "coxeter_matrix)",
    "labels <= 12: the small-root thresholds in coxeter_automaton.py (+-1e-6) are not probed with "
    "labels in the thousands",
    "long words: root oracle in 150-digit decimal arithmetic; short words: float64 with the sign of "
    "a root read off coefficients beyond +-1/2",
    "images under canonical_representation() count as distinct when they differ by more than "
    "1e-9 x the larger max-norm in some entry",
]

CLAIM = dict(
    text=("CoxeterGroup.automaton(shortlex=False) accepts exactly the reduced words, "
          "automaton(shortlex=True) exactly the lexicographically least reduced word of every element "
          "(order of ordered_gens), automaton(even_length=True) exactly the even-length words of "
          "those languages; hence the accepted words of each length count the growth series and "
          "distinct shortlex words have distinct canonical images."),
    note=("Oracles: Tits' braid-move solution of the word problem (exact) and an independent "
          "root/descent oracle, cross-checked on every word used.  Exhaustive over rank 2 (labels "
          "2..12, inf), all 343 ordered rank-3 matrices over {2..7,inf}, all 729 rank-4 matrices "
          "over {2,3,inf} (thorough); random rank 4 and 5."),
    technique="property-based testing against two independent word-problem oracles + bounded "
              "exhaustive enumeration of Coxeter matrices and words",
)


# ---------------------------------------------------------------------------
# decoding
def full_matrix(n, labels, codes=None):
    """symmetric matrix from the list of labels of the pairs (0,1),(0,2),..,(n-2,n-1);
    label 0 = infinity, written with the given code"""
    M = [[1] * n for _ in range(n)]
    pairs = list(itertools.combinations(range(n), 2))
    for idx, ((i, j), m) in enumerate(zip(pairs, labels)):
        if m <= 0:
            m = codes[idx % len(codes)] if codes else 0
        M[i][j] = M[j][i] = m
    return M


def avoid_h4(M):
    """random matrices of rank 4 and 5: a parabolic subgroup of type H4 (path 5 - 3 - 3, 14400
    elements) makes the library spend 5-30 s on an automaton with 14400+ states; such a
    sub-diagram gets its 5 replaced by 7 (H4 itself is a fixed case of the thorough tier)"""
    n = len(M)
    M = [list(r) for r in M]
    for sub in itertools.combinations(range(n), 4):
        for p in itertools.permutations(sub):
            a, b, c, d = p
            if (M[a][b] == 5 and M[b][c] == 3 and M[c][d] == 3 and M[a][c] == 2
                    and M[a][d] == 2 and M[b][d] == 2):
                M[a][b] = M[b][a] = 7
    return M


class Setup:
    """library group + harness view of one case"""

    def __init__(self, case, ctx):
        raw = case["matrix"]
        n = len(raw)
        self.n = n
        self.case = case
        if case.get("ctor") == "triangle" and n == 3:
            # the documented triple (p, q, r): orders of ab, bc, ca
            self.G = coxeter.TriangleGroup((raw[0][1], raw[1][2], raw[2][0]))
            want = ["a", "b", "c"]
            ctx.check(list(self.G.ordered_gens) == want, "generator names of TriangleGroup",
                      got=list(self.G.ordered_gens), want=want)
            self.names = want
            self.m = T.normalise(raw)
            lib = T.normalise(np.array(self.G.coxeter_matrix).tolist())
            ctx.check(lib == self.m, "TriangleGroup((p, q, r)): coxeter_matrix has p = m(a,b), "
                      "q = m(b,c), r = m(c,a)", got=lib, want=self.m)
            ctx.label("ctor=TriangleGroup")
        elif case.get("ctor", "matrix") in ("matrix", "triangle"):
            style = case.get("style", "alpha")
            kw = {} if style == "default" else {"generator_style": style}
            mat = [list(r) for r in raw] if case.get("as_list") else np.array(raw)
            self.G = coxeter.CoxeterGroup(matrix=mat, **kw)
            # the caller fills its work array / list with the next matrix afterwards
            if isinstance(mat, np.ndarray):
                mat[...] = 2
                np.fill_diagonal(mat, 1)
            else:
                for r in mat:
                    for jj in range(len(r)):
                        r[jj] = 2
            want = [ALPHA[i] if style in ("alpha", "default") else "s%d" % i for i in range(n)]
            ctx.check(list(self.G.ordered_gens) == want, "generator names of the matrix constructor",
                      got=list(self.G.ordered_gens), want=want)
            self.names = want
            self.m = T.normalise(raw)
        elif case.get("ctor") == "subgroup":
            # the group is the standard subgroup of a larger Coxeter group (one more generator,
            # inserted at position pos, with its own labels), itself built from a matrix or a
            # diagram: the same Coxeter matrix, reached through standard_subgroup
            sg = case["subgroup"]
            pos = sg["pos"] % (n + 1)
            big = [[1] * (n + 1) for _ in range(n + 1)]
            idx_small = [i for i in range(n + 1) if i != pos]
            for a, i in enumerate(idx_small):
                for b, j in enumerate(idx_small):
                    big[i][j] = raw[a][b]
            for a, i in enumerate(idx_small):
                big[i][pos] = big[pos][i] = sg["extra"][a % len(sg["extra"])]
            style = sg.get("style", "alpha")
            all_names = [ALPHA[i] if style == "alpha" else "s%d" % i for i in range(n + 1)]
            if sg.get("via") == "diagram":
                parent = coxeter.CoxeterGroup(diagram=[
                    (all_names[i], all_names[j], big[i][j])
                    for i in range(n + 1) for j in range(i + 1, n + 1)])
            else:
                parent = coxeter.CoxeterGroup(matrix=np.array(big), generator_style=style)
            nm = [all_names[i] for i in idx_small]
            self.G = parent.standard_subgroup(list(nm) if sg.get("as_list", True) else set(nm))
            og = list(self.G.ordered_gens)
            ctx.check(sorted(og) == sorted(nm), "standard_subgroup: ordered_gens is the chosen "
                      "generating set, each generator once", got=og, want=nm)
            idx = {g: nm.index(g) for g in og}
            perm = [[raw[idx[g]][idx[h]] for h in og] for g in og]
            self.m = T.normalise(perm)
            lib = T.normalise(np.array(self.G.coxeter_matrix).tolist())
            ctx.check(lib == self.m, "standard_subgroup: coxeter_matrix is the restriction of the "
                      "parent's matrix (in the order of ordered_gens)", got=lib, want=self.m)
            self.names = og
            ctx.label("ctor=standard_subgroup")
        else:
            nm = NAME_SETS[case["nameset"] % len(NAME_SETS)][:n]
            pairs = list(itertools.combinations(range(n), 2))
            order = case.get("edge_order") or list(range(len(pairs)))
            flips = case.get("flips") or [0] * len(pairs)
            diagram = []
            for k, pi in enumerate(order):
                i, j = pairs[pi % len(pairs)]
                if flips[k % len(flips)]:
                    i, j = j, i
                diagram.append((nm[i], nm[j], raw[i][j]))
            if case.get("diag"):
                diagram += [(g, g, 1) for g in nm]
            if sorted(p % len(pairs) for p in order) != list(range(len(pairs))):
                raise HarnessError("edge_order must be a permutation")
            if case.get("both"):
                # redundant data: the documentation (and the warning) say that the diagram is
                # what counts when a matrix is passed as well
                import warnings as _w
                decoy = [[1 if i == j else 3 for j in range(n)] for i in range(n)]
                with _w.catch_warnings():
                    _w.simplefilter("ignore")
                    self.G = coxeter.CoxeterGroup(diagram=diagram, matrix=np.array(decoy))
                ctx.label("diagram-and-matrix-given")
            else:
                self.G = coxeter.CoxeterGroup(diagram=diagram)
            og = list(self.G.ordered_gens)
            ctx.check(sorted(og) == sorted(nm), "ordered_gens is a permutation of the diagram's "
                      "generators", got=og, want=nm)
            idx = {g: nm.index(g) for g in og}
            # the matrix in the library's generator order
            perm = [[raw[idx[g]][idx[h]] for h in og] for g in og]
            self.m = T.normalise(perm)
            lib = T.normalise(np.array(self.G.coxeter_matrix).tolist())
            ctx.check(lib == self.m, "coxeter_matrix agrees with the diagram in the order of "
                      "ordered_gens", got=lib, want=self.m)
            self.names = og
        self.width = len(self.names[0])
        self.tits = T.TitsOracle(self.m)
        self.type = T.coxeter_type(self.m)
        if case.get("warm"):
            # the group object has already been asked for its other automata (in particular
            # the even-length ones) before the calls this case is about
            ctx.label("group-object-already-queried")
            for sl in (True, False):
                base = self.G.automaton(shortlex=sl)
                if len(list(base.vertices())) <= EVEN_MAX_BASE_STATES:
                    self.G.automaton(shortlex=sl, even_length=True)

    def w(self, word):
        return [self.names[i] for i in word]

    def automaton(self, shortlex):
        """the automaton under test: generated from the matrix, or - for the Coxeter groups
        whose automata are shipped with the library - the stored file"""
        if self.case.get("builtin"):
            return fsa.load_builtin(self.case["builtin"] + (".wa" if shortlex else ".geowa"))
        return self.G.automaton(shortlex=shortlex)

    def full_L(self, L):
        """a small finite group is enumerated completely (and one step beyond its longest
        element), whatever the length bound of the case"""
        if self.type == "spherical":
            f = self.tits.full_length()
            if f is not None:
                return max(L, f)
        return L

    def cut(self, s):
        """concatenated word -> tuple of generator indices"""
        k = self.width
        if len(s) % k:
            return None
        try:
            return tuple(self.names.index(s[i:i + k]) for i in range(0, len(s), k))
        except ValueError:
            return None

    def label(self, ctx, L):
        ctx.label("rank=%d" % self.n, "type=" + self.type)
        if self.n >= 3 and self.type != "spherical" and L >= 4:
            ctx.label("nt")
        if any(0 in row for row in self.m):
            ctx.label("has-infinity")
        if any(x >= 4 for row in self.m for x in row):
            ctx.label("label>=4")


def nt(labels):
    return "nt" in labels


EVEN_MAX_BASE_STATES = 150


def even_automaton(S, ctx, base, shortlex):
    """CoxeterGroup.automaton(even_length=True), or None when the base automaton has more
    than 150 states: FSA.automaton_multiple re-queues a vertex once per incoming two-step
    path, which took 9 s at 375 states and minutes at 1181 (a cost guard, counted in the labels)"""
    if len(list(base.vertices())) > EVEN_MAX_BASE_STATES:
        ctx.label("even-automaton-skipped(base>150 states)")
        return None
    return S.G.automaton(shortlex=shortlex, even_length=True)


def accepts(aut, word):
    """FSA.accepts; FSAException never escapes accepts() by contract"""
    r = aut.accepts(word)
    return bool(r)


# ---------------------------------------------------------------------------
# strategies / exhaustive domains
def default_L(n, tier):
    if n == 2:
        return None
    return {3: (8, 11), 4: (6, 8), 5: (5, 6)}[n][0 if tier == "quick" else 1]


def rank2_L(m):
    return 14 if m <= 0 else min(2 * m + 2, 26)


@st.composite
def presentation(draw, n):
    """how the matrix is handed to the library"""
    d = {"warm": draw(st.integers(0, 3)) == 0}
    k = draw(st.integers(0, 5))
    if k == 5 and n <= 4:
        d["ctor"] = "subgroup"
        d["subgroup"] = dict(pos=draw(st.integers(0, n)),
                             extra=[draw(st.sampled_from([2, 3, 4, 0, -1])) for _ in range(n)],
                             style=draw(st.sampled_from(["alpha", "alphanum"])),
                             via=draw(st.sampled_from(["matrix", "matrix", "diagram"])),
                             as_list=draw(st.booleans()))
    elif k <= 1:
        npairs = n * (n - 1) // 2
        d["ctor"] = "diagram"
        d["nameset"] = draw(st.integers(0, len(NAME_SETS) - 1))
        d["edge_order"] = list(draw(st.permutations(list(range(npairs)))))
        d["flips"] = [draw(st.integers(0, 1)) for _ in range(npairs)]
        d["diag"] = draw(st.booleans())
        d["both"] = draw(st.integers(0, 2)) == 0
    else:
        d["ctor"] = "matrix" if n != 3 or k != 2 else "triangle"
        d["style"] = draw(st.sampled_from(["alpha", "alphanum", "default"]))
        d["as_list"] = draw(st.booleans())
    return d


@st.composite
def coxeter_case(draw, tier_L=None, ranks=(2, 3, 4, 5)):
    n = draw(st.sampled_from(list(ranks)))
    npairs = n * (n - 1) // 2
    if n == 2:
        labels = [draw(st.sampled_from(list(range(2, 13)) + [0, 0]))]
    else:
        pool = draw(st.sampled_from([[2, 3, 0], [2, 3, 4, 5, 6, 7, 0], [2, 2, 3, 3, 4, 5, 0]]))
        if n == 5:
            # at most three labels >= 4: with more of them the library's automata reach
            # 10^4 states and take 5-30 s each to build
            labels = [draw(st.sampled_from([2, 3, 0])) for _ in range(npairs)]
            for _ in range(draw(st.integers(0, 3))):
                labels[draw(st.integers(0, npairs - 1))] = draw(st.sampled_from([4, 5, 6, 7]))
        else:
            labels = [draw(st.sampled_from(pool)) for _ in range(npairs)]
    codes = [draw(st.sampled_from(INF_CODES)) for _ in range(3)]
    M = avoid_h4(full_matrix(n, labels, codes))
    case = dict(matrix=M)
    case.update(draw(presentation(n)))
    if n == 2:
        case["L"] = rank2_L(labels[0])
    else:
        hi = {3: 10, 4: 7, 5: 6}[n]
        case["L"] = draw(st.integers(hi - 3, hi))
    return case


def _present(i, n):
    """a deterministic spread of presentations over an exhaustive domain"""
    npairs = n * (n - 1) // 2
    k = i % 5
    if k == 0:
        return dict(ctor="matrix", style="alpha", as_list=False)
    if k == 1:
        return dict(ctor="matrix", style="alphanum", as_list=True)
    if k == 2:
        return dict(ctor="matrix", style="default", as_list=False)
    order = list(range(npairs))
    r = (i // 5) % max(1, npairs)
    order = order[r:] + order[:r]
    if (i // 7) % 2:
        order.reverse()
    return dict(ctor="diagram", nameset=(i // 5) % len(NAME_SETS), edge_order=order,
                flips=[(i >> b) & 1 for b in range(npairs)], diag=bool(i % 2))


def exhaustive_domains(scale=1.0, with_rank4=True):
    def make(tier):
        doms = []
        r2 = []
        for i, m in enumerate(list(range(2, 13)) + [0, -1, -3]):
            c = dict(matrix=[[1, m], [m, 1]], L=rank2_L(m))
            c.update(_present(i, 2))
            r2.append(c)
        doms.append(("rank 2, labels 2..12 and infinity (as 0, -1, -3), all words up to length "
                     "2m+2", r2))
        L3 = default_L(3, tier)
        L3 = max(4, int(round(L3 * scale)))
        r3 = []
        for i, lab in enumerate(itertools.product([2, 3, 4, 5, 6, 7, 0], repeat=3)):
            c = dict(matrix=full_matrix(3, lab, [INF_CODES[i % 3], INF_CODES[(i // 3) % 3]]), L=L3)
            c.update(_present(i, 3))
            r3.append(c)
        doms.append(("rank 3, all 343 ordered triples over {2..7, inf}, all words up to length %d"
                     % L3, r3))
        if tier != "quick" and with_rank4:
            L4 = max(4, int(round(default_L(4, tier) * scale)))
            r4 = []
            for i, lab in enumerate(itertools.product([2, 3, 0], repeat=6)):
                c = dict(matrix=full_matrix(4, lab, [INF_CODES[i % 3], INF_CODES[(i // 3) % 3]]),
                         L=L4)
                c.update(_present(i, 4))
                r4.append(c)
            doms.append(("rank 4, all 729 matrices over {2, 3, inf}, all words up to length %d"
                         % L4, r4))
            named = []
            for i, lab in enumerate([(3, 2, 2, 4, 2, 3), (4, 2, 2, 3, 2, 3),      # F4, B4
                                     (3, 2, 2, 3, 2, 5), (5, 2, 2, 3, 2, 3)]):    # H4, H4
                c = dict(matrix=full_matrix(4, lab), L=L4)
                c.update(_present(i, 4))
                named.append(c)
            doms.append(("rank 4: F4, B4 and H4 (two generator orders), all words up to length "
                         "%d" % L4, named))
        return doms
    return make


# ---------------------------------------------------------------------------
# law 1: the two oracles agree (harness-internal)
def body_oracles(case, ctx):
    S = Setup(case, ctx)
    L = S.full_L(case["L"])
    S.label(ctx, L)
    R = T.RootOracle(S.m)
    spheres = S.tits.ball(L)
    total = 0
    for k, sph in enumerate(spheres):
        total += len(sph)
        for name, cls in sph.items():
            ctx.check(name == min(cls) and all(len(u) == k for u in cls), "harness: class shape")
            desc = sorted({u[-1] for u in cls if u})
            ldesc = sorted({u[0] for u in cls if u})
            probe = [name, max(cls)] if (k > 7 and len(cls) > 2) else sorted(cls)
            for u in probe:
                ctx.check(R.right_descents(u) == desc, "harness: right descents, root oracle vs "
                          "Tits oracle", word=u, tits=desc, root=R.right_descents(u))
            for u in {name, max(cls)}:
                ctx.check(R.left_descents(u) == ldesc, "harness: left descents", word=u)
                ctx.check(R.shortlex(u) == name, "harness: shortlex form, root oracle vs Tits "
                          "oracle", word=u, tits=name, root=R.shortlex(u))
                ctx.check(R.is_reduced(u), "harness: root oracle calls a reduced word reduced")
            # a spoiled word: reduced word + a descent letter
            for s in desc:
                w = max(cls) + (s,)
                ctx.check(not S.tits.is_reduced(w) and not R.is_reduced(w),
                          "harness: both oracles call word.descent non-reduced", word=w)
                r = R.reduce(w)
                ctx.check(len(r) == k - 1, "harness: length drops by one", word=w, reduced=r)
                ctx.check(S.tits.shortlex(w) == R.shortlex(w) and
                          S.tits.shortlex(w) in spheres[k - 1],
                          "harness: normal form of a non-reduced word", word=w)
    # closed forms
    if S.n == 2:
        m = S.m[0][1]
        sizes = [len(s) for s in spheres]
        if m == 0:
            want = [1] + [2] * L
        else:
            want = ([1] + [2] * (m - 1) + [1] + [0] * (L + 1))[:L + 1]
        ctx.check(sizes == want, "harness: dihedral growth", got=sizes, want=want)
    if S.n == 3:
        order = T.finite_order_rank3([S.m[0][1], S.m[0][2], S.m[1][2]])
        finite = order is not None
        ctx.check(finite == (S.type == "spherical"), "harness: classification of finite rank-3 "
                  "groups vs signature of the cosine form", type=S.type, order=order)
        if finite and not spheres[-1]:
            ctx.check(total == order, "harness: order of a finite rank-3 group", got=total,
                      want=order)
    if S.type != "spherical":
        ctx.check(all(len(s) > 0 for s in spheres), "harness: infinite group has elements of every "
                  "length")
    # exact arithmetic agrees with float64 on a few of the longest words
    RX = T.RootOracle(S.m, exact=True)
    for name in sorted(spheres[-1] if spheres[-1] else spheres[max(
            k for k, s in enumerate(spheres) if s)])[:3]:
        ctx.check(RX.right_descents(name) == R.right_descents(name) and RX.shortlex(name) == name,
                  "harness: decimal root oracle vs float root oracle", word=name)


# ---------------------------------------------------------------------------
# laws 2, 3: languages
def language_body(shortlex):
    def body(case, ctx):
        S = Setup(case, ctx)
        L = S.full_L(case["L"])
        S.label(ctx, L)
        aut = S.automaton(shortlex)
        if case.get("builtin"):
            ctx.label("builtin=" + case["builtin"], "nt")
        spheres = S.tits.ball(L + 1)
        stringy = S.width == 1
        n_in = n_out = 0
        for k in range(L + 1):
            for name, cls in spheres[k].items():
                desc = {u[-1] for u in cls if u}
                for u in cls:
                    good = (u == name) if shortlex else True
                    got = accepts(aut, S.w(u))
                    if got != good:
                        ctx.fail("%s automaton %s a reduced word that is %s" % (
                            "shortlex" if shortlex else "geodesic",
                            "accepts" if got else "rejects",
                            "not the least expression of its element" if not good else
                            ("the least expression of its element" if shortlex else "reduced")),
                            word=S.w(u), least=S.w(name), matrix=S.m)
                    ctx.units += 1
                    n_in += good
                    n_out += not good
                    if stringy and k and (len(cls) + k) % 3 == 0:
                        ctx.check(accepts(aut, "".join(S.w(u))) == good,
                                  "accepts(word as a string) == accepts(word as a list)")
                    if not good:
                        continue
                    # one-letter extensions of an accepted word
                    for s in range(S.n):
                        w = u + (s,)
                        if s in desc:
                            want = False
                        elif shortlex:
                            want = w in spheres[k + 1]
                        else:
                            want = True
                        got = accepts(aut, S.w(w))
                        if got != want:
                            ctx.fail("%s automaton %s the word" % (
                                "shortlex" if shortlex else "geodesic",
                                "accepts" if got else "rejects"), word=S.w(w),
                                reduced=s not in desc, matrix=S.m,
                                least=(S.w(S.tits.shortlex(w))))
                        ctx.units += 1
                        n_out += not want
        # the automaton's own enumeration, as a multiset
        got = collections.Counter(aut.enumerate_words(L))
        want = collections.Counter()
        for k in range(L + 1):
            for name, cls in spheres[k].items():
                for u in ([name] if shortlex else cls):
                    want["".join(S.w(u))] += 1
        if got != want:
            ctx.fail("enumerate_words(L) is not the %s language" % (
                "shortlex" if shortlex else "geodesic"),
                missing=sorted((want - got).elements())[:6],
                extra=sorted((got - want).elements())[:6], matrix=S.m)
        ctx.units += 1
        if n_out:
            ctx.label("rejections-tested")
        if any(len(c) > 1 for sph in spheres for c in sph.values()):
            ctx.label("elements-with-several-reduced-words")
    return body


# ---------------------------------------------------------------------------
# law 4: exactly one shortlex word per element
def body_one_word(case, ctx):
    S = Setup(case, ctx)
    L = S.full_L(case["L"])
    S.label(ctx, L)
    sl = S.G.automaton()                # shortlex=True is the default
    geo = S.G.automaton(shortlex=False)
    spheres = S.tits.ball(L)
    elem = {}
    for k, sph in enumerate(spheres):
        for name, cls in sph.items():
            for u in cls:
                elem[u] = name
    hits = collections.Counter()
    for s in sl.enumerate_words(L):
        u = S.cut(s)
        ctx.check(u is not None and u in elem, "an accepted shortlex word is a reduced word of "
                  "length <= L", word=s)
        hits[elem[u]] += 1
    names = [name for sph in spheres for name in sph]
    bad = [S.w(nm) for nm in names if hits[nm] != 1]
    ctx.check(not bad, "exactly one accepted shortlex word per group element of the ball",
              elements=bad[:5], counts=[hits[nm] for nm in names if hits[nm] != 1][:5],
              matrix=S.m)
    ghits = collections.Counter()
    for s in geo.enumerate_words(L):
        u = S.cut(s)
        ctx.check(u is not None and u in elem, "an accepted geodesic word is reduced", word=s)
        ghits[elem[u]] += 1
    ctx.check(all(ghits[nm] == len(spheres[len(nm)][nm]) for nm in names),
              "the geodesic automaton accepts every reduced expression of every element once",
              matrix=S.m)
    # the default automaton is the shortlex one
    ctx.check(sl.graph_dict == S.G.automaton(shortlex=True).graph_dict,
              "automaton() defaults to shortlex=True")


# ---------------------------------------------------------------------------
# law 5: even-length variant
def even_body(part):
    def body(case, ctx):
        S = Setup(case, ctx)
        L = S.full_L(case["L"])
        if part == "queries" and S.n >= 3:
            L = min(L, 6)            # (the language itself is the business of the other part)
        L += L % 2
        S.label(ctx, L)
        spheres = S.tits.ball(L)

        def chunks(u):
            ws = S.w(u)
            return [ws[i] + ws[i + 1] for i in range(0, len(ws), 2)]
        for shortlex in (True, False):
            base = S.G.automaton(shortlex=shortlex)
            ev = even_automaton(S, ctx, base, shortlex)
            if ev is None:
                continue
            tag = "shortlex" if shortlex else "geodesic"
            if part == "language":
                want = collections.Counter()
                for k in range(0, L + 1, 2):
                    for name, cls in spheres[k].items():
                        for u in ([name] if shortlex else cls):
                            want["".join(S.w(u))] += 1
                # 1. membership queries
                for k in range(0, L + 1, 2):
                    for name, cls in spheres[k].items():
                        desc = {u[-1] for u in cls if u}
                        for u in cls:
                            good = (u == name) if shortlex else True
                            got = accepts(ev, chunks(u))
                            if got != good:
                                ctx.fail("even-length %s automaton %s an even-length word that "
                                         "the base automaton %s" % (
                                             tag, "accepts" if got else "rejects",
                                             "accepts" if good else "rejects"),
                                         word=chunks(u), matrix=S.m)
                            ctx.units += 1
                        # accepted word + two letters of which the last one spoils it
                        u = name if shortlex else max(cls)
                        for s in range(S.n):
                            if s in desc:
                                continue
                            w = u + (s, s)                      # ... s s is never reduced
                            got = accepts(ev, chunks(w))
                            ctx.check(got is False, "even-length %s automaton accepts a word "
                                      "ending in a repeated generator" % tag, word=chunks(w),
                                      matrix=S.m)
                # 2. its enumeration
                got = collections.Counter(ev.enumerate_words(L // 2))
                if got != want:
                    ctx.fail("language of the even-length %s automaton is not the set of "
                             "even-length words of the base language" % tag,
                             missing=sorted((want - got).elements())[:6],
                             extra=sorted((got - want).elements())[:6], matrix=S.m)
                ctx.units += 1
                # every label is a two-generator word
                for v, nb in ev.graph_dict.items():
                    for lab in nb:
                        c = S.cut(lab)
                        ctx.check(c is not None and len(c) == 2, "labels of the even automaton "
                                  "are two-letter words", label=lab)
                # against the base automaton's own enumeration
                base_even = collections.Counter(w for w in base.enumerate_words(L)
                                                if (len(w) // S.width) % 2 == 0)
                ctx.check(got == base_even, "even automaton vs even-length words enumerated by "
                          "the base automaton")
            else:
                # words that leave the language and go on: the answer is False (no exception),
                # follow_word raises FSAException, and no query changes the automaton
                snapshot = {v: dict(nb) for v, nb in ev.graph_dict.items()}
                nverts = len(list(ev.vertices()))
                any_label = S.names[0] + S.names[-1]
                for k in range(0, L + 1, 2):
                    for name, cls in spheres[k].items():
                        desc = {u[-1] for u in cls if u}
                        u = name if shortlex else max(cls)
                        ctx.check(ev.follow_word(chunks(u)) == base.follow_word(S.w(u)),
                                  "even automaton reaches the state of the base automaton",
                                  word=chunks(u))
                        for s in range(S.n):
                            if s in desc:
                                continue
                            w = u + (s, s)
                            for tail in ([any_label], [any_label, any_label]):
                                word = chunks(w) + tail
                                got = accepts(ev, word)
                                ctx.check(got is False, "even-length %s automaton accepts a word "
                                          "with a non-reduced prefix" % tag, word=word,
                                          matrix=S.m)
                                try:
                                    ev.follow_word(word)
                                    ctx.fail("follow_word on a rejected word did not raise",
                                             word=word)
                                except FSAException:
                                    ctx.units += 1
                after = {v: dict(nb) for v, nb in ev.graph_dict.items()}
                ctx.check(after == snapshot and len(list(ev.vertices())) == nverts,
                          "membership queries changed the even-length automaton")
                ctx.check(collections.Counter(ev.enumerate_words(L // 2)) ==
                          collections.Counter(w for w in base.enumerate_words(L)
                                              if (len(w) // S.width) % 2 == 0),
                          "language of the even automaton after the queries")
    return body


# ---------------------------------------------------------------------------
# law 6: growth series
def body_growth(case, ctx):
    S = Setup(case, ctx)
    L = S.full_L(case["L"])
    S.label(ctx, L)
    spheres = S.tits.ball(L)
    sl = S.G.automaton(shortlex=True)
    geo = S.G.automaton(shortlex=False)
    ev = even_automaton(S, ctx, sl, True)
    sizes = [len(s) for s in spheres]
    got = [sum(1 for _ in sl.enumerate_fixed_length_paths(k)) for k in range(L + 1)]
    ctx.check(got == sizes, "number of accepted shortlex words per length = growth series",
              got=got, want=sizes, matrix=S.m)
    nred = [sum(len(c) for c in s.values()) for s in spheres]
    gotg = [sum(1 for _ in geo.enumerate_fixed_length_paths(k)) for k in range(L + 1)]
    ctx.check(gotg == nred, "number of accepted geodesic words per length = number of reduced "
              "words", got=gotg, want=nred, matrix=S.m)
    if ev is not None:
        gote = [sum(1 for _ in ev.enumerate_fixed_length_paths(k)) for k in range(L // 2 + 1)]
        ctx.check(gote == sizes[0::2][:len(gote)], "even automaton counts the even spheres",
                  got=gote, want=sizes[0::2])
    # counting by dynamic programming over the transition table (no enumeration), further out
    far = L + 6
    cnt = collections.Counter({sl.start_vertices[0]: 1})
    series = [1]
    for _ in range(far):
        nxt = collections.Counter()
        for v, c in cnt.items():
            for lab, h in sl.graph_dict[v].items():
                nxt[h] += c
        cnt = nxt
        series.append(sum(cnt.values()))
    ctx.check(series[:L + 1] == sizes, "path counts of the shortlex automaton")
    if S.n == 2:
        m = S.m[0][1]
        want = [1] + [2] * far if m == 0 else ([1] + [2] * (m - 1) + [1] + [0] * far)[:far + 1]
        ctx.check(series == want, "dihedral growth series", got=series, want=want)
    if S.type == "spherical":
        # Solomon: a finite Coxeter group has a unique longest element; palindromic series
        nz = [x for x in series if x]
        if series[-1] == 0:
            ctx.check(nz == nz[::-1] and nz[-1] == 1, "growth series of a finite group is "
                      "palindromic", series=series)
            if S.n == 3:
                ctx.check(sum(nz) == T.finite_order_rank3([S.m[0][1], S.m[0][2], S.m[1][2]]),
                          "order of the finite group", got=sum(nz))
    else:
        ctx.check(all(x > 0 for x in series), "infinite group: words of every length",
                  series=series)
        ctx.check(all(b >= a for a, b in zip(series, series[1:])) or S.n >= 2,
                  "growth is monotone")


# ---------------------------------------------------------------------------
# law 7: faithful images
def body_images(case, ctx):
    S = Setup(case, ctx)
    L = min(case["L"], {2: 26, 3: 8, 4: 6, 5: 5}[S.n])
    S.label(ctx, L)
    spheres = S.tits.ball(L)
    rep = S.G.canonical_representation()
    sl = S.G.automaton(shortlex=True)
    words = [S.cut(s) for s in sl.enumerate_words(L)]
    ctx.check(all(w is not None for w in words), "accepted words are words in the generators")
    mats = np.array(rep.elements([S.w(u) for u in words]), dtype=float)
    N = len(words)
    ctx.check(mats.shape == (N, S.n, S.n), "shape of the images", got=mats.shape)
    ctx.check(np.all(np.isfinite(mats)), "finite images")
    flat = mats.reshape(N, -1)
    nrm = np.max(np.abs(flat), axis=1)
    worst = 0.0
    # pairwise distances, blockwise
    for a in range(0, N, 256):
        d = np.max(np.abs(flat[a:a + 256, None, :] - flat[None, :, :]), axis=2)
        sc = np.maximum(nrm[a:a + 256, None], nrm[None, :])
        ratio = 1e-9 * np.maximum(sc, 1.0) / np.maximum(d, 1e-300)
        for i in range(ratio.shape[0]):
            ratio[i, a + i] = 0.0
        j = np.unravel_index(np.argmax(ratio), ratio.shape)
        if ratio[j] > worst:
            worst = float(ratio[j])
            pair = (words[a + j[0]], words[j[1]])
    prev = ctx.resid.get("tolerance / distance of two shortlex images", 0.0)
    ctx.resid["tolerance / distance of two shortlex images"] = max(prev, worst)
    ctx.units += 1
    if worst > 1.0:
        ctx.fail("two distinct accepted shortlex words have the same image under "
                 "canonical_representation()", words=[S.w(pair[0]), S.w(pair[1])], matrix=S.m)
    # the documented way to get the ball: rep.automaton_accepted(automaton, L) - exactly the
    # accepted words, each once, with the images of those words (also for finite groups,
    # whose automata have dead ends, and for the even-length variant, whose labels are words)
    # (labels of multi-character generator names are single generators, not words)
    am, aw = rep.automaton_accepted(sl, L, with_words=True, edge_words=(S.width == 1))
    ctx.check(sorted(aw) == sorted(sl.enumerate_words(L)),
              "automaton_accepted(shortlex automaton, L) returns the accepted words, each once",
              got=len(aw), want=N, matrix=S.m)
    am = np.asarray(am, dtype=float)
    ctx.check(am.shape == (N, S.n, S.n), "automaton_accepted: one matrix per accepted word",
              got=am.shape, want=(N, S.n, S.n))
    pos = {s_: i for i, s_ in enumerate(sl.enumerate_words(L))}
    for s_, Mu in zip(aw, am):
        ref = mats[pos[s_]]
        ctx.small("automaton_accepted: the matrix of a word is its image",
                  (Mu - ref) / (1e-9 * max(1.0, float(np.max(np.abs(ref))))), 1.0, word=s_)
    # the ball split by the state the word ends in (the cone type of the element): every
    # element of the ball exactly once over all end states, state 0 (the start state: the
    # identity alone) included
    if len(list(sl.vertices())) <= 60:
        seen = collections.Counter()
        for v in sl.vertices():
            _, wv = rep.automaton_accepted(sl, L, with_words=True, end_state=v,
                                           edge_words=(S.width == 1))
            seen.update(wv)
        ctx.check(seen == collections.Counter(sl.enumerate_words(L)),
                  "automaton_accepted(..., end_state=s) over all states s lists every accepted "
                  "shortlex word exactly once", extra=sorted((seen - collections.Counter(
                      sl.enumerate_words(L))).elements())[:5], matrix=S.m)
        ctx.label("ball-split-by-end-state")
    ev = even_automaton(S, ctx, sl, True)
    if ev is not None and S.width == 1:
        Le = max(2, (L // 2))
        em, ew = rep.automaton_accepted(ev, Le, with_words=True)
        want_even = sorted(w_ for w_ in sl.enumerate_words(2 * Le) if len(w_) % 2 == 0)
        ctx.check(sorted(ew) == want_even, "automaton_accepted(even automaton) returns the "
                  "even-length accepted words, each once", got=len(ew), want=len(want_even),
                  matrix=S.m)
        # and its three views list every edge once
        for v in ev.vertices():
            eo = list(ev.edges_out(v))
            ctx.check(len(eo) == len(set(eo)) == len(ev.graph_dict[v]),
                      "even automaton: every edge listed once in the outgoing view",
                      vertex=v, edges=eo[:6])
    # conversely: all reduced expressions of one element have one image
    geo = S.G.automaton(shortlex=False)
    gw = [S.cut(s) for s in geo.enumerate_words(min(L, 6))]
    index = {u: i for i, u in enumerate(words)}
    elem = {}
    for sph in spheres:
        for name, cls in sph.items():
            for u in cls:
                elem[u] = name
    gm = np.array(rep.elements([S.w(u) for u in gw]), dtype=float)
    for u, Mu in zip(gw, gm):
        ref = mats[index[elem[u]]]
        ctx.small("reduced expressions of one element have one image",
                  (Mu - ref) / (1e-9 * max(1.0, float(np.max(np.abs(ref))))), 1.0, word=S.w(u))


# ---------------------------------------------------------------------------
# law 8: long words
@st.composite
def long_case(draw):
    case = draw(coxeter_case(ranks=(3, 3, 4, 4, 5, 2)))
    case["L"] = 4
    case["walk"] = draw(st.lists(st.integers(0, 11), min_size=10, max_size=40))
    case["grow"] = draw(st.lists(st.integers(0, 11), min_size=10, max_size=40))
    case["anyword"] = draw(st.lists(st.integers(0, 4), min_size=2, max_size=30))
    return case


def body_long(case, ctx):
    S = Setup(case, ctx)
    R = T.RootOracle(S.m, exact=True)
    sl = S.G.automaton(shortlex=True)
    geo = S.G.automaton(shortlex=False)
    ev = even_automaton(S, ctx, sl, True)
    longest = 0
    # (a) random walks in the automata: accepted words must be reduced / least
    for aut, is_sl in ((sl, True), (geo, False)):
        v = aut.start_vertices[0]
        w = []
        for c in case["walk"]:
            out = sorted(aut.graph_dict[v].items(), key=lambda kv: S.names.index(kv[0]))
            if not out:
                break
            lab, v = out[c % len(out)]
            w.append(S.names.index(lab))
        w = tuple(w)
        longest = max(longest, len(w))
        ctx.check(accepts(aut, S.w(w)), "a path in the automaton is an accepted word")
        ctx.check(R.is_reduced(w), "a word accepted by the %s automaton is not reduced" % (
            "shortlex" if is_sl else "geodesic"), word=S.w(w), reduced_to=S.w(R.reduce(w)),
            matrix=S.m)
        if is_sl:
            least = R.shortlex(w)
            ctx.check(least == w, "a word accepted by the shortlex automaton is not the least "
                      "reduced expression of its element", word=S.w(w), least=S.w(least),
                      matrix=S.m)
    # (b) a random reduced word grown with the root oracle
    u = ()
    for c in case["grow"]:
        free = [s for s in range(S.n) if not R.right_descent(u, s)]
        if not free:
            break
        u = u + (free[c % len(free)],)
    longest = max(longest, len(u))
    ctx.check(accepts(geo, S.w(u)), "geodesic automaton rejects a reduced word", word=S.w(u),
              matrix=S.m)
    least = R.shortlex(u)
    ctx.check(len(least) == len(u), "harness: shortlex form has the same length")
    ctx.check(accepts(sl, S.w(least)), "shortlex automaton rejects the least reduced expression",
              word=S.w(least), matrix=S.m)
    ctx.check(accepts(geo, S.w(least)), "geodesic automaton rejects the least reduced expression")
    if least != u:
        ctx.label("grown-word-not-least")
        ctx.check(not accepts(sl, S.w(u)), "shortlex automaton accepts a reduced word that is not "
                  "the least expression", word=S.w(u), least=S.w(least), matrix=S.m)
    if len(least) % 2 == 0 and least and ev is not None:
        ws = S.w(least)
        ctx.check(accepts(ev, [ws[i] + ws[i + 1] for i in range(0, len(ws), 2)]),
                  "even-length automaton rejects an even-length shortlex word")
    # one-letter spoilings of the long reduced word
    for s in range(S.n):
        w = u + (s,)
        red = not R.right_descent(u, s)
        ctx.check(accepts(geo, S.w(w)) == red, "geodesic automaton on reduced word + letter",
                  word=S.w(w), reduced=red, matrix=S.m)
        w2 = least + (s,)
        want = red and R.shortlex(w2) == w2
        ctx.check(accepts(sl, S.w(w2)) == want, "shortlex automaton on least word + letter",
                  word=S.w(w2), want=want, matrix=S.m)
    # (c) an arbitrary word
    a = tuple(x % S.n for x in case["anyword"])
    red = R.is_reduced(a)
    ctx.check(accepts(geo, S.w(a)) == red, "geodesic automaton on an arbitrary word", word=S.w(a),
              reduced=red, matrix=S.m)
    ctx.check(accepts(sl, S.w(a)) == (red and R.shortlex(a) == a),
              "shortlex automaton on an arbitrary word", word=S.w(a), matrix=S.m)
    if red:
        ctx.label("arbitrary-word-reduced")
    S.label(ctx, longest)
    if longest >= 20:
        ctx.label("length>=20")


# ---------------------------------------------------------------------------
# law 9: every state and every transition of the automaton, through one word each
def body_state_cover(case, ctx):
    S = Setup(case, ctx)
    RX = T.RootOracle(S.m, exact=True, prec=90)
    memo = {}
    deepest = 0

    def cover(aut, shortlex, backwards):
        tag = "shortlex" if shortlex else "geodesic"

        def status(w):
            key = (shortlex, w)
            if key not in memo:
                memo[key] = RX.is_shortlex(w) if shortlex else RX.is_reduced(w)
            return memo[key]
        start = aut.start_vertices[0]
        rep = {start: ()}
        order = [start]
        for v in order:
            for lab, h in sorted(aut.graph_dict[v].items(), key=lambda kv: S.names.index(kv[0]),
                                 reverse=backwards):
                if h not in rep:
                    rep[h] = rep[v] + (S.names.index(lab),)
                    order.append(h)
        ctx.check(set(rep) == set(aut.vertices()), "every state is reachable from the start state",
                  unreachable=len(set(aut.vertices()) - set(rep)))
        # all states when there are few, else the deepest ones and a spread of the others
        chosen = order if len(order) <= 60 else order[-30:] + order[1:-30:max(1, len(order) // 30)]
        for v in chosen:
            w = rep[v]
            ctx.check(status(w), "the %s automaton reaches a state through a word outside the "
                      "language" % tag, word=S.w(w), matrix=S.m)
            for s in range(S.n):
                w2 = w + (s,)
                want = status(w2)
                got = accepts(aut, S.w(w2))
                ctx.check(got == want, "%s automaton %s a word (state representative + letter)"
                          % (tag, "accepts" if got else "rejects"), word=S.w(w2), matrix=S.m)
                if not want:
                    continue
                h = aut.graph_dict[v][S.names[s]]
                if rep[h] == w2:
                    continue
                # a transition that is not in the breadth-first tree: the target state was
                # reached first through another word; it has to serve this word as well
                for t in range(S.n):
                    w3 = w2 + (t,)
                    want3 = status(w3)
                    got3 = accepts(aut, S.w(w3))
                    ctx.check(got3 == want3, "%s automaton %s a word (representative + two "
                              "letters, through a state shared with another word)"
                              % (tag, "accepts" if got3 else "rejects"), word=S.w(w3),
                              other_word_of_the_state=S.w(rep[h]), matrix=S.m)
        ctx.label("states<=60" if len(order) <= 60 else "states>60")
        return max(len(w) for w in rep.values())

    for shortlex in (False, True):
        aut = S.G.automaton(shortlex=shortlex)
        for backwards in (False, True):       # two different breadth-first trees
            deepest = max(deepest, cover(aut, shortlex, backwards))
    S.label(ctx, deepest)
    if deepest >= 12:
        ctx.label("depth>=12")


@st.composite
def cover_case(draw):
    case = draw(coxeter_case(ranks=(2, 3, 3, 4, 4, 5)))
    case["L"] = 0
    return case


def exhaustive_cover(tier):
    doms = exhaustive_domains(with_rank4=(tier != "quick"))(tier)
    return doms


# ---------------------------------------------------------------------------
BUILTIN_COXETER = {
    "cox334": [[1, 3, 4], [3, 1, 3], [4, 3, 1]],
    "cox237": [[1, 2, 7], [2, 1, 3], [7, 3, 1]],
    "cox3334": [[1, 3, 2, 4], [3, 1, 3, 2], [2, 3, 1, 3], [4, 2, 3, 1]],
    "cox535": [[1, 5, 2, 2], [5, 1, 3, 2], [2, 3, 1, 5], [2, 2, 5, 1]],
}


def exhaustive_builtin(tier):
    """the Coxeter automata shipped with the library (cox*.wa shortlex, cox*.geowa geodesic)
    against the word problem of the group each file is named after"""
    cases = []
    for name, M in sorted(BUILTIN_COXETER.items()):
        L = {3: (8, 11), 4: (6, 8)}[len(M)][0 if tier == "quick" else 1]
        cases.append(dict(matrix=M, ctor="matrix", style="alpha", L=L, builtin=name))
    return [("the 4 shipped Coxeter automata, all words up to length L", cases)]


def _law(name, strategy, body, nontrivial, **kw):
    law = Law(name, strategy, body, nontrivial, **kw)
    law.ex_shards = {"quick": 4, "thorough": 16}
    return law


LAWS = [
    _law("oracles_agree", coxeter_case(), body_oracles, nt, quick=25, thorough=200, shards=(1, 4),
         exhaustive=exhaustive_domains(scale=0.75)),
    _law("geodesic_language", coxeter_case(), language_body(False), nt, quick=40, thorough=300,
         shards=(1, 4), exhaustive=exhaustive_domains()),
    _law("shortlex_language", coxeter_case(), language_body(True), nt, quick=40, thorough=300,
         shards=(1, 4), exhaustive=exhaustive_domains()),
    _law("builtin_shortlex_files", None, language_body(True), nt, exhaustive=exhaustive_builtin),
    _law("builtin_geodesic_files", None, language_body(False), nt, exhaustive=exhaustive_builtin),
    _law("one_word_per_element", coxeter_case(), body_one_word, nt, quick=40, thorough=300,
         shards=(1, 4), exhaustive=exhaustive_domains()),
    _law("even_variant", coxeter_case(), even_body("language"), nt, quick=40, thorough=300,
         shards=(1, 4), exhaustive=exhaustive_domains()),
    _law("even_variant_queries", coxeter_case(), even_body("queries"), nt, quick=40, thorough=300,
         shards=(1, 4), exhaustive=exhaustive_domains()),
    _law("growth_series", coxeter_case(), body_growth, nt, quick=40, thorough=300, shards=(1, 4),
         exhaustive=exhaustive_domains()),
    _law("faithful_images_distinct", coxeter_case(), body_images, nt, quick=40, thorough=300,
         shards=(1, 4), exhaustive=exhaustive_domains(scale=0.75)),
    _law("long_words", long_case(), body_long, nt, quick=60, thorough=600, shards=(2, 8)),
    _law("state_cover", cover_case(), body_state_cover, nt, quick=30, thorough=300, shards=(2, 8),
         exhaustive=exhaustive_cover),
]
