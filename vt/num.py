"""Numerical helpers for oracles: projective equality, shapes, unit loops."""
import numpy as np


def proj_defect(u, v):
    """0 iff u and v are parallel (rows; Hermitian for complex): 1 - |<u,v>|/(|u||v|),
    computed row by row along the last axis."""
    u = np.asarray(u)
    v = np.asarray(v)
    nu = np.sqrt(np.sum(np.abs(u) ** 2, axis=-1))
    nv = np.sqrt(np.sum(np.abs(v) ** 2, axis=-1))
    ip = np.abs(np.sum(u * np.conj(v), axis=-1))
    with np.errstate(all="ignore"):
        return 1.0 - ip / (nu * nv)


def proj_dist(u, v):
    """sine-like distance between projective classes of rows u,v (last axis):
    min(|u/|u| - v/|v||, |u/|u| + v/|v||) for real; for complex uses the
    Fubini-Study chordal distance sqrt(1 - |<u,v>|^2/(|u|^2|v|^2))."""
    u = np.asarray(u)
    v = np.asarray(v)
    nu2 = np.sum(np.abs(u) ** 2, axis=-1)
    nv2 = np.sum(np.abs(v) ** 2, axis=-1)
    ip2 = np.abs(np.sum(u * np.conj(v), axis=-1)) ** 2
    with np.errstate(all="ignore"):
        # |u|^2|v|^2 - |<u,v>|^2 computed stably via Lagrange identity for accuracy
        val = 1.0 - ip2 / (nu2 * nv2)
        # refine using explicit residual  u - (<u,v>/<v,v>) v
        coef = np.sum(u * np.conj(v), axis=-1) / nv2
        res = u - coef[..., None] * v
        val2 = np.sum(np.abs(res) ** 2, axis=-1) / nu2
    out = np.sqrt(np.maximum(np.where(np.isfinite(val2), val2, val), 0.0))
    return np.where(np.isfinite(val2) & np.isfinite(val), out, np.nan)


def mat_proj_dist(A, B):
    """projective distance of matrices (last two axes flattened)"""
    A = np.asarray(A)
    B = np.asarray(B)
    return proj_dist(A.reshape(A.shape[:-2] + (-1,)), B.reshape(B.shape[:-2] + (-1,)))


def minkowski_form(m):
    J = np.eye(m)
    J[0, 0] = -1.0
    return J


def mink(u, v):
    u = np.asarray(u)
    v = np.asarray(v)
    return -u[..., 0] * v[..., 0] + np.sum(u[..., 1:] * v[..., 1:], axis=-1)


def cond(M):
    M = np.asarray(M)
    return np.linalg.norm(M, 2) * np.linalg.norm(np.linalg.inv(M), 2)


def arr(shape, units, tail):
    """stack a flat list of unit arrays into shape + tail"""
    a = np.array(units, dtype=float)
    return a.reshape(tuple(shape) + tuple(tail))
