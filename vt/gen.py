"""Hypothesis strategies.  Every strategy yields plain JSON values (lists of
floats / ints / strings); all randomness lives here so cases shrink and replay."""
import os
import math
import numpy as np
from hypothesis import strategies as st


def fl(lo, hi):
    return st.floats(min_value=lo, max_value=hi, allow_nan=False, allow_infinity=False,
                     allow_subnormal=False, width=64)


def prod(shape):
    p = 1
    for s in shape:
        p *= s
    return p


def shapes(max_rank=3, max_side=3, min_rank=0):
    """Composite shapes; size-1 axes are frequent on purpose."""
    side = st.sampled_from([x for x in [1, 1, 2, 3] if x <= max_side])
    return st.lists(side, min_size=min_rank, max_size=max_rank)


@st.composite
def directions(draw, n):
    """Unit vector in R^n as a list; covers every direction: one coordinate is
    forced to +-1 before normalising."""
    if n == 1:
        return [float(draw(st.sampled_from([-1.0, 1.0])))]
    special = draw(st.integers(0, 9))
    if special == 0:   # axis-aligned
        i = draw(st.integers(0, n - 1))
        s = draw(st.sampled_from([-1.0, 1.0]))
        return [s if j == i else 0.0 for j in range(n)]
    v = [draw(fl(-1.0, 1.0)) for _ in range(n)]
    i = draw(st.integers(0, n - 1))
    v[i] = draw(st.sampled_from([-1.0, 1.0]))
    nrm = math.sqrt(sum(x * x for x in v))
    return [x / nrm for x in v]


@st.composite
def klein_point(draw, n, rmax=0.999, special=True, rmin=0.0):
    """Klein coordinates of an interior point of H^n with |x| <= rmax."""
    if special and rmin == 0.0 and draw(st.integers(0, 14)) == 0:
        return [0.0] * n
    d = draw(directions(n))
    kind = draw(st.integers(0, 3))
    if kind == 0:
        # hyperbolic-uniform-ish: radius = tanh(t)
        tmax = math.atanh(rmax)
        tmin = math.atanh(rmin) if rmin > 0 else 0.0
        r = math.tanh(draw(fl(tmin, tmax)))
    else:
        r = draw(fl(rmin, rmax))
    r = min(max(r, rmin), rmax)
    return [r * x for x in d]


def klein_points(n, count, **kw):
    return st.lists(klein_point(n, **kw), min_size=count, max_size=count)


@st.composite
def ideal_direction(draw, n, away_from_inf=0.05):
    """Unit vector u in R^n (an ideal point (1,u)); at Euclidean distance
    >= away_from_inf from (1,0,...,0), the half-space point at infinity."""
    for _ in range(20):
        d = draw(directions(n))
        dist = math.sqrt((d[0] - 1.0) ** 2 + sum(x * x for x in d[1:]))
        if dist >= away_from_inf:
            return d
    d = [0.0] * n
    d[0] = -1.0
    return d


def scalars_pm(lo=0.1, hi=10.0):
    """non-zero scale factors in +-[lo, hi]"""
    return st.builds(lambda s, m: s * m, st.sampled_from([-1.0, 1.0]), fl(lo, hi))


def scalars_wide():
    """per-unit factors: mostly ordinary ones, one draw in four a factor three orders of
    magnitude away"""
    return st.one_of(scalars_pm(), scalars_pm(), scalars_pm(),
                     st.sampled_from([1e-3, -2e-3, 1e3, -5e2]))


COMMON_FACTORS = [1.0, 1.0, 1.0, 1e-9, -1e-5, 1e5, 3e8]


def scalars_any():
    """one non-zero factor: ordinary, or (one draw in four) an ordinary one times a factor of
    another order of magnitude"""
    return st.one_of(scalars_pm(), scalars_pm(), scalars_pm(),
                     st.builds(lambda c, s: c * s, st.sampled_from(COMMON_FACTORS),
                               scalars_pm()))


def scale_lists(draw, *counts):
    """"arbitrary non-zero scalars": lists of per-unit factors (scalars_wide) times one
    factor common to the whole case, which may be of quite another order of magnitude
    (homogeneous coordinates read off a tiny drawing, or kept in other units). A common
    factor costs no accuracy; the per-unit ones differ by at most 1e6 within a case, far
    inside the range where float64 sums of differently scaled terms keep 1e-9 accuracy."""
    common = draw(st.sampled_from(COMMON_FACTORS))
    return [[common * draw(scalars_wide()) for _ in range(c)] for c in counts]


@st.composite
def orthogonal_matrix(draw, n, allow_reflection=True):
    """O(n) matrix as a product of a few Givens rotations (and maybe a reflection)."""
    M = [[1.0 if i == j else 0.0 for j in range(n)] for i in range(n)]
    if n >= 2:
        k = draw(st.integers(0, 2 * n))
        for _ in range(k):
            i = draw(st.integers(0, n - 2))
            j = draw(st.integers(i + 1, n - 1))
            th = draw(st.one_of(fl(-math.pi, math.pi),
                                st.sampled_from([0.0, math.pi / 2, math.pi, -math.pi / 2])))
            c, s = math.cos(th), math.sin(th)
            for col in range(n):
                a, b = M[i][col], M[j][col]
                M[i][col] = c * a - s * b
                M[j][col] = s * a + c * b
    if allow_reflection and draw(st.booleans()):
        i = draw(st.integers(0, n - 1))
        M[i] = [-x for x in M[i]]
    return M


@st.composite
def wellcond_matrix(draw, n, complex_=False, maxfactor=4.0):
    """Invertible n x n matrix with condition number <= ~1e3: product of an
    orthogonal matrix, a diagonal with entries in +-[1/maxfactor, maxfactor],
    a unipotent with entries in [-1,1] (and optionally i times another)."""
    import numpy as np
    Q = np.array(draw(orthogonal_matrix(n)))
    d = [draw(st.sampled_from([-1.0, 1.0])) * math.exp(draw(fl(-math.log(maxfactor),
                                                                  math.log(maxfactor))))
         for _ in range(n)]
    U = np.eye(n)
    for i in range(n):
        for j in range(i + 1, n):
            if draw(st.booleans()):
                U[i, j] = draw(fl(-1.0, 1.0))
    M = Q @ np.diag(d) @ U
    if draw(st.booleans()):
        M = M @ np.array(draw(orthogonal_matrix(n)))
    if complex_:
        ph = [draw(fl(-math.pi, math.pi)) for _ in range(n)]
        V = np.eye(n, dtype=complex)
        for i in range(n):
            for j in range(i + 1, n):
                if draw(st.booleans()):
                    V[i, j] = draw(fl(-1.0, 1.0)) * 1j
        M = (M.astype(complex) @ np.diag(np.exp(1j * np.array(ph))) @ V)
        # left factor: complex Givens rotations (unitary, so the conditioning is unchanged);
        # without it M = (real matrix) x (phases) x (unipotent), which is too special to
        # expose e.g. a missing complex conjugation in a left kernel
        if n >= 2:
            for _ in range(draw(st.integers(1, n))):
                i = draw(st.integers(0, n - 2))
                j = draw(st.integers(i + 1, n - 1))
                th = draw(fl(0.2, 1.3))
                al = draw(fl(-math.pi, math.pi))
                G = np.eye(n, dtype=complex)
                G[i, i] = G[j, j] = math.cos(th)
                G[i, j] = -math.sin(th) * np.exp(-1j * al)
                G[j, i] = math.sin(th) * np.exp(1j * al)
                M = G @ M
        return [[[float(z.real), float(z.imag)] for z in row] for row in M]
    return [[float(x) for x in row] for row in M]


def cmat(rows):
    """decode [[ [re,im],... ]] or [[x,...]] into a numpy array"""
    import numpy as np
    a = np.array(rows, dtype=float)
    if a.ndim >= 1 and a.shape[-1] == 2 and a.ndim == 3:
        return a[..., 0] + 1j * a[..., 1]
    return a


@st.composite
def unimodular_int_matrix(draw, n, steps=6, maxabs=2):
    """Integer matrix of determinant +-1: product of elementary matrices."""
    M = [[1 if i == j else 0 for j in range(n)] for i in range(n)]
    if n == 1:
        return [[draw(st.sampled_from([1, -1]))]]
    k = draw(st.integers(0, steps))
    for _ in range(k):
        i = draw(st.integers(0, n - 1))
        j = draw(st.integers(0, n - 2))
        if j >= i:
            j += 1
        c = draw(st.integers(-maxabs, maxabs))
        # row_i += c * row_j
        M[i] = [a + c * b for a, b in zip(M[i], M[j])]
    if draw(st.booleans()):
        i = draw(st.integers(0, n - 1))
        M[i] = [-a for a in M[i]]
    return M


def words(gens, max_len, min_len=0, inverses=True):
    alphabet = list(gens)
    if inverses:
        alphabet = alphabet + [g.upper() if g.lower() == g else g.lower() for g in gens]
    return st.lists(st.sampled_from(alphabet), min_size=min_len, max_size=max_len)



# --------------------------------------------------------------------------- array flavours
# (Fortran order is not in the automatic list: np.array(x) keeps it, BLAS then takes another
# path, and where the library makes an arbitrary choice - the sign and order of the ideal
# basis stored with a hyperplane - the choice can come out differently, validly; the laws
# that compare such data composite against unit would see layout, not compositeness.
# VERIF_FLAVOUR=fortran forces it everywhere for exploration.)
FLAVOURS = ["plain", "plain", "noncontiguous", "readonly", "negstride"]


def flavour_of(a):
    """a deterministic choice of memory layout for the array handed to the library, derived
    from the data itself (so that existing replay files keep their meaning)"""
    a = np.asarray(a)
    if a.size == 0 or a.ndim == 0:
        return "plain"
    v = np.abs(a.reshape(-1)[:4].astype(complex)).sum()
    if not np.isfinite(v):
        return "plain"
    return FLAVOURS[int(v * 7919) % len(FLAVOURS)]


def flavoured(a, which=None):
    """the same values in another memory layout: a non-contiguous view (every second slot of
    a wider buffer), Fortran order, a read-only array, or a view with a negative stride on
    the first axis.  The library accepts array-likes and must not depend on the layout."""
    a = np.asarray(a)
    which = which or os.environ.get("VERIF_FLAVOUR") or flavour_of(a)
    if which == "plain" or a.ndim == 0 or a.size == 0:
        return a
    if which == "noncontiguous":
        big = np.zeros(a.shape[:-1] + (2 * a.shape[-1],), dtype=a.dtype)
        big[..., ::2] = a
        big[..., 1::2] = 12345.0
        return big[..., ::2]
    if which == "fortran":
        return np.asfortranarray(a)
    if which == "readonly":
        r = a.copy()
        r.setflags(write=False)
        return r
    if which == "negstride":
        return np.ascontiguousarray(a[::-1])[::-1]
    return a


class Handed:
    """arrays handed to the library by a caller who goes on using them: `give` returns the
    array (in one of the memory layouts above) and remembers it, `scribble` overwrites every
    remembered array afterwards, as a caller re-filling its buffers would.  An object that
    still read its data through such an array would change with it."""

    def __init__(self):
        self.arrays = []

    def give(self, a, flavour=None):
        a = flavoured(np.array(a), flavour)
        self.arrays.append(a)
        return a

    def scribble(self, value=777.0):
        for a in self.arrays:
            if a.flags.writeable:
                a[...] = value
        self.arrays = []
