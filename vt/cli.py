"""./check <Cxx> [--tier quick|thorough] [--replay FILE] [--law NAME]"""
import os
import sys
import glob
import json
import time
import argparse
import collections

from . import engine
from .core import HarnessError, jsonable, case_key
from .engine import ROOT, Stats, run_body


def _validate_evidence(ev):
    try:
        import jsonschema
        with open("/root/.vp/EVIDENCE.schema.json") as f:
            schema = json.load(f)
        jsonschema.validate(ev, schema)
    except ImportError:
        pass
    except FileNotFoundError:
        pass


def write_evidence(pid, tier, seed, mod, merged, reg_info, known_info, wall, violations,
                   errors):
    evaluations = sum(m["evaluations"] for m in merged.values()) + reg_info["ran"]
    nt = set()
    for name, m in merged.items():
        nt.update("%s:%s" % (name, k) for k in m["nt_keys"])
    samples = []
    for name, m in merged.items():
        for s in m["samples"][:2]:
            samples.append(s)
    samples = samples[:12]
    laws = collections.OrderedDict()
    exhaustive_domains = []
    for name, m in merged.items():
        labels = dict(sorted(m["labels"].items(), key=lambda kv: -kv[1]))
        laws[name] = dict(
            cases=m["evaluations"], distinct_cases=m["distinct"],
            nontrivial_distinct=len(m["nt_keys"]), unit_comparisons=m["units"],
            labels=labels,
            worst_residual_over_tolerance={k: float("%.3g" % v) if v == v and v != float("inf")
                                           else str(v) for k, v in sorted(m["resid"].items())},
            excluded_known_findings=dict(m["excluded"]),
            exhaustive_domains=m["exhaustive"], wall_s=round(m["wall"], 2),
            failures=len(m["failures"]),
        )
        exhaustive_domains.extend(m["exhaustive"])
    import numpy
    import hypothesis
    coverage = dict(
        evaluations=int(evaluations),
        distinct_nontrivial=int(len(nt)),
        rule=getattr(mod, "RULE", ""),
        samples=samples,
        laws=laws,
        exhaustive_subdomains=exhaustive_domains,
        exhaustive=False,
        regressions_replayed=reg_info,
        known_findings=known_info,
        harness_errors=errors,
        second_interpreter=getattr(mod, "SECOND_RESULT", None),
        interpreter=dict(python=sys.version.split()[0], numpy=numpy.__version__,
                         hypothesis=hypothesis.__version__, repo=engine.REPO),
    )
    ev = dict(property_id=pid, tier=tier, seed=int(seed), level="exploration",
              coverage=coverage,
              assumptions=list(getattr(mod, "ASSUMPTIONS", [])),
              wall_s=round(wall, 2), violations=int(violations))
    ev = jsonable(ev)
    os.makedirs(os.path.join(ROOT, "evidence"), exist_ok=True)
    path = os.path.join(ROOT, "evidence", "%s.json" % pid)
    tmp = path + ".tmp"
    with open(tmp, "w") as f:
        json.dump(ev, f, indent=1, sort_keys=False)
        f.write("\n")
    os.replace(tmp, path)
    if not errors and not violations:
        _validate_evidence(ev)
    return path


def save_replay(pid, failure, seed, tag):
    d = os.path.join(ROOT, "out", "replay", pid)
    os.makedirs(d, exist_ok=True)
    path = os.path.join(d, "%s-%s-%s.json" % (failure["law"], seed, tag))
    with open(path, "w") as f:
        json.dump(jsonable(dict(property=pid, law=failure["law"], case=failure["case"],
                                kind=failure["kind"], msg=failure["msg"],
                                detail=failure.get("detail"))), f, indent=1)
        f.write("\n")
    return os.path.relpath(path, ROOT)


def run_second_interpreter(pid, mod, seed, violations, errors):
    """thorough tier: rerun the listed laws (quick budget) under the tooling interpreter
    (python3-vt: another NumPy version), in a child process that writes no evidence."""
    import shutil
    import subprocess
    exe = shutil.which("python3-vt")
    if exe is None:
        return {"skipped": "python3-vt not on PATH"}
    out = {"interpreter": exe, "laws": {}}
    for law in mod.SECOND_INTERPRETER:
        env = dict(os.environ)
        env.update(VERIF_CHILD="1", VERIF_SEED=str(seed), PYTHONPATH=ROOT,
                   VERIF_JOBS="4")
        try:
            r = subprocess.run([exe, "-m", "vt.cli", pid, "--tier", "quick", "--law", law],
                               cwd=ROOT, env=env, capture_output=True, text=True,
                               timeout=1800)
        except Exception as e:  # noqa
            out["laws"][law] = {"error": repr(e)}
            continue
        summ = None
        for line in r.stdout.splitlines():
            if line.startswith("CHILD-SUMMARY "):
                summ = json.loads(line[len("CHILD-SUMMARY "):])
            if line.startswith("VIOLATION "):
                rp = line.split("replay=")[-1].strip()
                violations.append((rp, dict(law=law, kind="violation(second interpreter)",
                                            msg=r.stdout[-1500:], detail=None, case=None)))
        if r.returncode == 2 or summ is None:
            if summ is None and r.returncode != 1:
                out["laws"][law] = {"skipped": "child could not run: " +
                                    (r.stdout + r.stderr)[-300:]}
                continue
        out["laws"][law] = summ["laws"].get(law) if summ else None
        if summ:
            out["numpy"] = summ["numpy"]
            out["python"] = summ["python"]
    return out


def find_law(mod, name):
    for l in mod.LAWS:
        if l.name == name:
            return l
    raise HarnessError("no law %r in %s" % (name, mod.__name__))


def replay_file(pid, mod, path, open_ids):
    with open(path) as f:
        rec = json.load(f)
    law = find_law(mod, rec["law"])
    st = Stats()
    return run_body(law, rec["case"], st, open_ids, count=False)


def main(argv=None):
    ap = argparse.ArgumentParser()
    ap.add_argument("property")
    ap.add_argument("--tier", default=os.environ.get("VERIF_TIER", "quick"),
                    choices=["quick", "thorough"])
    ap.add_argument("--replay", default=None)
    ap.add_argument("--law", default=None)
    ap.add_argument("--jobs", type=int, default=None)
    args = ap.parse_args(argv)
    pid = args.property.upper()
    try:
        seed = int(os.environ.get("VERIF_SEED", "1") or "1")
    except ValueError:
        seed = 1
    t0 = time.time()
    try:
        mod = engine.load_property(pid)
    except Exception as e:  # noqa
        import traceback
        print("HARNESS-ERROR property=%s cannot import laws: %r" % (pid, e))
        traceback.print_exc()
        return 2
    opens = engine.open_findings(pid)
    open_ids = [e["id"] for e in opens]

    if args.replay:
        try:
            f = replay_file(pid, mod, args.replay, open_ids)
        except HarnessError as e:
            print("HARNESS-ERROR %s" % e)
            return 2
        if f is None:
            print("REPLAY-PASS property=%s file=%s" % (pid, args.replay))
            return 0
        print("VIOLATION property=%s replay=%s" % (pid, args.replay))
        print("  law=%s %s: %s" % (f["law"], f["kind"], f["msg"]))
        print("  detail=%s" % json.dumps(jsonable(f.get("detail")))[:2000])
        return 1

    violations = []
    errors = []
    # 1. regression tier: committed minimal cases of earlier failures
    reg_files = sorted(glob.glob(os.path.join(ROOT, "regressions", pid, "*.json")))
    reg_info = {"ran": 0, "files": len(reg_files)}
    if not args.law:
        for path in reg_files:
            try:
                f = replay_file(pid, mod, path, open_ids)
            except HarnessError as e:
                errors.append("regression %s: %s" % (path, e))
                continue
            reg_info["ran"] += 1
            if f is not None:
                violations.append((os.path.relpath(path, ROOT), f))
    # 2. open known findings: replay the pinned case, print KNOWN-FINDING when it still fails
    known_info = []
    for e in opens:
        path = os.path.join(ROOT, e["case_file"])
        try:
            f = replay_file(pid, mod, path, [])   # not excluded: must really fail
        except HarnessError as he:
            errors.append("known finding %s: %s" % (e["id"], he))
            continue
        still = f is not None
        known_info.append({"id": e["id"], "still_fails": still, "what": e["what"]})
        if still:
            print("KNOWN-FINDING: property=%s %s [%s]" % (pid, e["what"], e["id"]))
        else:
            print("NOTE: listed finding %s no longer reproduces on this tree" % e["id"])
    # 3. generated search
    try:
        mod, merged, errs = engine.run_property(pid, args.tier, seed, args.law, args.jobs)
        errors.extend(errs)
    except HarnessError as e:
        errors.append(str(e))
        merged = {}
    for name, m in merged.items():
        for i, f in enumerate(m["failures"][:1]):
            rp = save_replay(pid, f, seed, "%s%d" % (args.tier[0], i))
            violations.append((rp, f))
    child = bool(os.environ.get("VERIF_CHILD"))
    second = None
    if (not child and args.tier == "thorough" and not args.law
            and getattr(mod, "SECOND_INTERPRETER", None)):
        second = run_second_interpreter(pid, mod, seed, violations, errors)
    wall = time.time() - t0
    if child:
        summ = {n: dict(cases=m["evaluations"], nontrivial=len(m["nt_keys"]),
                        failures=len(m["failures"])) for n, m in merged.items()}
        import numpy
        print("CHILD-SUMMARY " + json.dumps({"numpy": numpy.__version__,
                                              "python": sys.version.split()[0],
                                              "laws": summ}))
        for (rp, f) in violations:
            print("VIOLATION property=%s replay=%s" % (pid, rp))
            print("  law=%s %s: %s" % (f["law"], f["kind"], f["msg"]))
        for e in errors:
            print("HARNESS-ERROR property=%s %s" % (pid, e))
        return 1 if violations else (2 if errors else 0)
    try:
        if second is not None:
            mod.SECOND_RESULT = second
        if os.environ.get("VERIF_NOEVIDENCE"):
            raise_skip = True
        else:
            raise_skip = False
        evpath = None if raise_skip else write_evidence(pid, args.tier, seed, mod, merged, reg_info, known_info,
                                wall, len(violations), errors)
    except Exception as e:  # noqa
        import traceback
        errors.append("evidence: %r\n%s" % (e, traceback.format_exc()))
        evpath = None
    for name, m in merged.items():
        print("  law %-40s cases=%-6d nontrivial=%-6d units=%-8d %5.1fs%s" % (
            name, m["evaluations"], len(m["nt_keys"]), m["units"], m["wall"],
            "  FAIL" if m["failures"] else ""))
    for (rp, f) in violations:
        print("VIOLATION property=%s replay=%s" % (pid, rp))
        print("  law=%s %s: %s" % (f["law"], f["kind"], f["msg"]))
        print("  detail=%s" % json.dumps(jsonable(f.get("detail")))[:1500])
        print("  case=%s" % json.dumps(jsonable(f.get("case")))[:1500])
    if violations:
        return 1
    if errors:
        for e in errors:
            print("HARNESS-ERROR property=%s %s" % (pid, e))
        return 2
    print("OK property=%s tier=%s seed=%d evaluations=%d wall=%.1fs evidence=%s" % (
        pid, args.tier, seed, sum(m["evaluations"] for m in merged.values()), wall,
        os.path.relpath(evpath, ROOT) if evpath else None))
    return 0


if __name__ == "__main__":
    sys.exit(main())
