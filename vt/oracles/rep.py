"""Reference models for words, representations and the linear-algebra constructions
derived from them (C05, C17).  Nothing here imports geometry_tools.

Conventions (from the library's docstrings):
* a word is a list of generator names; the inverse of a generator is stored under
  the case-swapped name; rho(w) is the left-to-right product of the letters' matrices.
* tensor basis of R^n (x) R^n: e_i (x) e_j at index i*n + j  (np.kron order).
* Sym^2 basis (`sym_index` docstring): the symmetric index matrix has 0 in the bottom
  right corner, then 1 2 in the row above, 3 4 5 above that ...: pairs (i, j), i <= j,
  listed for i = n-1, n-2, ..., 0 and j = i..n-1.
* gl(n) coordinates: row-major flattening, basis E_ij at index i*n + j.
* sl(n) coordinates (`sln_lie_algebra_coords` docstring): the first n^2-1 row-major
  entries of a traceless matrix, i.e. basis E_ij (i != j) and E_ii - E_(n-1)(n-1).
* sl2_irrep docstring: basis e1^k e2^(n-1-k), k = 0..n-1, of the homogeneous
  polynomials of degree n-1 in (e1, e2).
"""
import math
from fractions import Fraction

import numpy as np


# ---------------------------------------------------------------------------
# words
def swap(name):
    """name of the inverse generator"""
    if name == name.lower():
        return name.upper()
    return name.lower()


def free_reduce(letters):
    """free reduction by repeatedly deleting one adjacent inverse pair (confluent,
    so the result does not depend on the order of deletions)."""
    w = list(letters)
    changed = True
    while changed:
        changed = False
        for i in range(len(w) - 1):
            if w[i + 1] == swap(w[i]) and w[i] != w[i + 1]:
                del w[i:i + 2]
                changed = True
                break
    return w


def inverse_word(letters):
    return [swap(x) for x in reversed(list(letters))]


def is_reduced(letters):
    return all(not (b == swap(a) and a != b) for a, b in zip(letters, letters[1:]))


# ---------------------------------------------------------------------------
# exact integer linear algebra
def int_inverse(M):
    """exact inverse of an integer matrix of determinant +-1 (Gauss-Jordan over Q);
    returns a list of lists of python ints"""
    n = len(M)
    A = [[Fraction(int(M[i][j])) for j in range(n)] +
         [Fraction(1 if i == j else 0) for j in range(n)] for i in range(n)]
    for c in range(n):
        p = None
        for r in range(c, n):
            if A[r][c] != 0:
                p = r
                break
        if p is None:
            raise ValueError("singular integer matrix")
        A[c], A[p] = A[p], A[c]
        piv = A[c][c]
        A[c] = [x / piv for x in A[c]]
        for r in range(n):
            if r != c and A[r][c] != 0:
                f = A[r][c]
                A[r] = [x - f * y for x, y in zip(A[r], A[c])]
    out = []
    for i in range(n):
        row = []
        for j in range(n):
            x = A[i][n + j]
            if x.denominator != 1:
                raise ValueError("matrix is not unimodular")
            row.append(int(x))
        out.append(row)
    return out


def int_matmul(A, B):
    n, m, p = len(A), len(B), len(B[0]) if B else 0
    return [[sum(A[i][k] * B[k][j] for k in range(m)) for j in range(p)] for i in range(n)]


def int_eval(letter_mats, word, n):
    """exact product; also the largest absolute entry over all prefixes"""
    P = [[1 if i == j else 0 for j in range(n)] for i in range(n)]
    big = 1
    for x in word:
        P = int_matmul(P, letter_mats[x])
        big = max(big, max(abs(v) for row in P for v in row))
    return P, big


# ---------------------------------------------------------------------------
# float evaluation with a running error bound
EPS = 2.3e-16


def norm2(M):
    M = np.asarray(M)
    if M.size == 0:
        return 0.0
    return float(np.linalg.norm(M.astype(complex) if M.dtype == object else M, 2))


class Letters:
    """matrices of the letters of a representation: generators as given, inverses
    computed here (numpy inverse of the generator, not read from the library);
    `err[x]` bounds the absolute error of the library's matrix for letter x."""

    def __init__(self):
        self.mat = {}
        self.err = {}
        self.nrm = {}
        self.n = None

    def assign(self, name, M):
        M = np.array(M)
        self.n = M.shape[0]
        Mf = M.astype(complex) if np.iscomplexobj(M) else M.astype(float)
        inv = np.linalg.inv(Mf)
        self.mat[name] = Mf
        self.err[name] = 0.0
        self.mat[swap(name)] = inv
        self.nrm[name] = norm2(Mf)
        self.nrm[swap(name)] = norm2(inv)
        c = self.nrm[name] * self.nrm[swap(name)]
        self.err[swap(name)] = 8 * self.n * EPS * c * self.nrm[swap(name)]

    def derived(self, f, degree=1, extra_cond=1.0):
        """letters of the representation x -> f(rho(x)); the error of the library's
        derived letter is bounded by (relative error of the letter + rounding) x
        cond(letter) x extra_cond x degree x |f(letter)| (generous on purpose)"""
        D = Letters()
        for x, M in self.mat.items():
            FM = np.asarray(f(M))
            if FM.dtype == object:
                FM = FM.astype(complex if any(isinstance(v, complex) for v in FM.flat)
                               else float)
            D.mat[x] = FM
            D.n = FM.shape[0]
            D.nrm[x] = norm2(FM)
            rel = self.err[x] / max(self.nrm[x], 1e-300) + 16 * max(self.n, D.n) * EPS
            cx = self.nrm[x] * self.nrm[swap(x)]
            D.err[x] = 4 * degree * rel * cx * extra_cond * max(D.nrm[x], 1.0)
        return D

    def names(self):
        return list(self.mat)

    def cond(self):
        out = 1.0
        for k in self.mat:
            out = max(out, self.nrm[k] * self.nrm[swap(k)])
        return out

    def eval(self, word):
        """(rho(word), bound on |library value - true value| + |this value - true value|)
        for a left-to-right float product"""
        n = self.n
        P = np.eye(n, dtype=complex if any(np.iscomplexobj(m) for m in self.mat.values())
                   else float)
        e = 0.0
        for x in word:
            M = self.mat[x]
            nm = self.nrm[x]
            np_ = float(np.linalg.norm(P))
            e = e * (nm + self.err[x]) + np_ * (self.err[x] + 4 * n * EPS * nm)
            P = P @ M
        return P, 2 * e + 1e-300

    def growth(self, word):
        g = 1.0
        for x in word:
            g *= max(1.0, self.nrm[x])
        return g


# ---------------------------------------------------------------------------
# Fox calculus
def fox_terms(word, g):
    """d(word)/dg as a list of (coefficient, prefix word):  for a letter x_i = g the
    term +x_1..x_(i-1); for x_i = g^-1 the term -x_1..x_i."""
    out = []
    G = swap(g)
    for i, x in enumerate(word):
        if x == g:
            out.append((1, list(word[:i])))
        elif x == G:
            out.append((-1, list(word[:i + 1])))
    return out


def fox_reduced_dict(word, g):
    """the same element of Z[F] as a dict {reduced word (tuple): coeff}, zero
    coefficients dropped"""
    d = {}
    for c, w in fox_terms(word, g):
        k = tuple(free_reduce(w))
        d[k] = d.get(k, 0) + c
    return {k: v for k, v in d.items() if v != 0}


# ---------------------------------------------------------------------------
# tensor / symmetric square
def sym_order(n):
    return [(i, j) for i in range(n - 1, -1, -1) for j in range(i, n)]


def sym_inclusion(n):
    """e_i e_j -> (e_i (x) e_j + e_j (x) e_i)/2"""
    order = sym_order(n)
    M = np.zeros((n * n, len(order)))
    for s, (i, j) in enumerate(order):
        M[i * n + j, s] += 0.5
        M[j * n + i, s] += 0.5
    return M


def sym_projection(n):
    """e_i (x) e_j -> e_i e_j"""
    order = sym_order(n)
    pos = {}
    for s, (i, j) in enumerate(order):
        pos[(i, j)] = s
        pos[(j, i)] = s
    M = np.zeros((len(order), n * n))
    for i in range(n):
        for j in range(n):
            M[pos[(i, j)], i * n + j] = 1.0
    return M


def sym2(M):
    n = M.shape[0]
    return sym_projection(n) @ np.kron(M, M) @ sym_inclusion(n)


def sym_square_vector(v):
    """coordinates of the square v.v of v = sum v_i e_i in the Sym^2 basis:
    v_i^2 on e_i e_i and 2 v_i v_j on e_i e_j (i < j)"""
    n = len(v)
    return np.array([v[i] * v[j] * (1 if i == j else 2) for (i, j) in sym_order(n)])


# ---------------------------------------------------------------------------
# adjoint representations
def gln_adjoint(g, ginv=None):
    g = np.asarray(g)
    n = g.shape[0]
    if ginv is None:
        ginv = np.linalg.inv(g)
    out = np.zeros((n * n, n * n), dtype=np.result_type(g.dtype, float))
    for i in range(n):
        for j in range(n):
            E = np.zeros((n, n))
            E[i, j] = 1.0
            out[:, i * n + j] = (g @ E @ ginv).reshape(n * n)
    return out


def sln_basis(n):
    B = []
    for i in range(n):
        for j in range(n):
            if (i, j) == (n - 1, n - 1):
                continue
            E = np.zeros((n, n))
            E[i, j] = 1.0
            if i == j:
                E[n - 1, n - 1] = -1.0
            B.append(E)
    return B


def sln_coords(X):
    n = X.shape[0]
    return X.reshape(n * n)[:-1]


def sln_adjoint(g, ginv=None):
    g = np.asarray(g)
    n = g.shape[0]
    if ginv is None:
        ginv = np.linalg.inv(g)
    B = sln_basis(n)
    out = np.zeros((n * n - 1, n * n - 1), dtype=np.result_type(g.dtype, float))
    for k, E in enumerate(B):
        out[:, k] = sln_coords(g @ E @ ginv)
    return out


def sln_trace_form(n):
    B = sln_basis(n)
    return np.array([[np.trace(X @ Y) for Y in B] for X in B])


# ---------------------------------------------------------------------------
# SL(2) irreducible representations
def veronese(v, n):
    """coordinates of (x e1 + y e2)^(n-1) in the basis e1^k e2^(n-1-k), k = 0..n-1"""
    x, y = v
    r = n - 1
    return np.array([math.comb(r, k) * x ** k * y ** (r - k) for k in range(n)])


def herm_basis():
    return [np.array([[1, 0], [0, 0]], dtype=complex),
            np.array([[0, 0], [0, 1]], dtype=complex),
            np.array([[0, 1], [1, 0]], dtype=complex),
            np.array([[0, 1j], [-1j, 0]], dtype=complex)]


def herm_coords(X):
    """real coordinates of a Hermitian 2x2 matrix in herm_basis()"""
    return np.array([X[0, 0].real, X[1, 1].real, X[0, 1].real, X[0, 1].imag])


def herm_from_coords(h):
    B = herm_basis()
    return sum(h[i] * B[i] for i in range(4))


def real_block_form(A):
    A = np.asarray(A)
    return np.block([[A.real, -A.imag], [A.imag, A.real]])
