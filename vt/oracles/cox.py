"""Closed forms for Coxeter groups used as oracles for C08.  Nothing here imports
geometry_tools.

A Coxeter matrix is a symmetric integer matrix with 1 on the diagonal; an entry <= 0
means "infinite order".  The cosine matrix is B_ij = -cos(pi / m_ij), with -1 for an
infinite label.  The geometric representation sends s_i to the *column* matrix
I - 2 e_i (B e_i)^T = I - E_ii (2B)  (sigma_i(e_j) = e_j - 2 B_ij e_i), which satisfies
sigma^T B sigma = B; for a Cartan matrix C (C_ii = 2) the reflection is I - E_ii C.
"""
import math
import numpy as np


def is_inf(m):
    return m <= 0


def neg_cos(m):
    """-cos(pi/m), exact for the labels where it is rational; -1 for infinity"""
    if is_inf(m):
        return -1.0
    if m == 1:
        return 1.0
    if m == 2:
        return 0.0
    if m == 3:
        return -0.5
    return -math.cos(math.pi / m)


def cosine_matrix(M):
    n = len(M)
    return np.array([[neg_cos(int(M[i][j])) for j in range(n)] for i in range(n)],
                    dtype=float)


def reflection(C, i):
    """column matrix of the i-th reflection of the Cartan matrix C: I - E_ii C"""
    n = len(C)
    R = np.eye(n)
    R[i, :] -= np.asarray(C, dtype=float)[i, :]
    return R


def signature(B, tol=1e-9):
    """(#positive, #negative, #zero, min |nonzero eigenvalue|, eigenvalues ascending)"""
    ev = np.linalg.eigvalsh(np.asarray(B, dtype=float))
    pos = int(np.sum(ev > tol))
    neg = int(np.sum(ev < -tol))
    zero = len(ev) - pos - neg
    nz = np.abs(ev[np.abs(ev) > tol])
    return pos, neg, zero, (float(nz.min()) if len(nz) else 0.0), ev


def pair_trace(n, cij_cji):
    """trace of rho(s_i) rho(s_j) for reflections of a Cartan matrix with C_ii = 2:
    n - 4 + C_ij C_ji"""
    return n - 4 + cij_cji


def rotation_power_trace(n, m, k):
    """trace of (rho(s) rho(t))^k when st has finite order m: the product is a rotation by
    2 pi / m in a plane and the identity on a complement"""
    return n - 2 + 2 * math.cos(2 * math.pi * k / m)


def mink(u, v):
    u = np.asarray(u, dtype=float)
    v = np.asarray(v, dtype=float)
    return -u[..., 0] * v[..., 0] + np.sum(u[..., 1:] * v[..., 1:], axis=-1)


def is_hyperbolic_triple(p, q, r):
    s = sum(0.0 if is_inf(x) else 1.0 / x for x in (p, q, r))
    return s < 1 - 1e-12


def angle_at(x, y, z):
    """interior angle at the interior point x (timelike vector) of the triangle x, y, z;
    y and z may be interior or ideal.  Uses only Minkowski products: the direction from x
    to y is y + <x,y>/(-<x,x>) x  (the component of y orthogonal to x)."""
    x = np.asarray(x, dtype=float)
    xx = mink(x, x)
    dirs = []
    for w in (y, z):
        w = np.asarray(w, dtype=float)
        if mink(x, w) > 0:          # bring w to the sheet / cone of x
            w = -w
        dirs.append(w - (mink(x, w) / xx) * x)
    a, b = dirs
    c = mink(a, b) / math.sqrt(mink(a, a) * mink(b, b))
    return math.acos(max(-1.0, min(1.0, c)))
