"""Shared by C03 / C04: strategies for the unit data of every object class, builders
of library objects from JSON cases, projective comparison of units, and a few pieces of
closed-form hyperbolic geometry used to place points (written independently of the
library).

A *unit spec* is the JSON form of the rows handed to a constructor for one unit object:
a list of rows of floats (real data) or ``{"re": rows, "im": rows}`` (complex data).
All units of one composite share the number of rows, so a composite is a flat list of
unit specs in C order plus a shape."""
import math
import numpy as np
from hypothesis import strategies as st

from .. import gen
from ..gen import fl
from ..num import proj_dist, mat_proj_dist, mink
from ..core import HarnessError

from geometry_tools import projective as P
from geometry_tools import hyperbolic as H


# --------------------------------------------------------------------------- JSON
def enc(a):
    a = np.asarray(a)
    if np.iscomplexobj(a):
        return {"re": a.real.tolist(), "im": a.imag.tolist()}
    return a.astype(float).tolist()


def dec(x):
    if isinstance(x, dict):
        return np.array(x["re"], dtype=float) + 1j * np.array(x["im"], dtype=float)
    return np.array(x, dtype=float)


def dec_units(units, shape, tail=None):
    """list of unit specs -> array of shape `shape + unit shape`"""
    arrs = [dec(u) for u in units]
    if len(arrs) != gen.prod(shape):
        raise HarnessError("case has %d units for shape %r" % (len(arrs), shape))
    if not arrs:
        if tail is None:
            raise HarnessError("empty composite without a unit shape")
        return np.zeros(tuple(shape) + tuple(tail))
    a = np.array(arrs)
    return a.reshape(tuple(shape) + a.shape[1:])


# --------------------------------------------------------------------------- rows
@st.composite
def s_vec(draw, m):
    """non-zero real vector of R^m: a covering direction times a scale in +-[0.5, 2]"""
    d = draw(gen.directions(m))
    s = draw(gen.scalars_pm(0.5, 2.0))
    return [s * x for x in d]


@st.composite
def s_timelike(draw, n, rmax=0.9, scale=None):
    """timelike vector of R^(n,1): hyperboloid point over a Klein point, times a
    non-zero scalar (either sign)"""
    k = draw(gen.klein_point(n, rmax=rmax))
    w = 1.0 / math.sqrt(1.0 - sum(x * x for x in k))
    s = draw(gen.scalars_pm(0.5, 2.0)) if scale is None else scale
    return [s * w] + [s * w * x for x in k]


@st.composite
def s_null(draw, n):
    d = draw(gen.directions(n))
    s = draw(gen.scalars_pm(0.5, 2.0))
    return [s] + [s * x for x in d]


@st.composite
def s_spacelike(draw, n, tmax=0.9):
    """spacelike v = s (t, u), |u| = 1, |t| <= tmax: <v,v> >= (1 - tmax^2) s^2"""
    d = draw(gen.directions(n))
    t = draw(fl(-tmax, tmax))
    s = draw(gen.scalars_pm(0.5, 2.0))
    return [s * t] + [s * x for x in d]


def _minkowski_tangent(p, e):
    """unit tangent vector at the hyperboloid point p in the direction of (0, e)"""
    v = np.concatenate([[0.0], e])
    w = v + mink(v, p) * p          # <p,p> = -1
    return w / math.sqrt(mink(w, w))


@st.composite
def s_segment_rows(draw, n, dmin=0.3, dmax=2.0):
    """two points of H^n at distance in [dmin, dmax], as hyperboloid vectors times a
    common |scale| and independent signs (keeps the quadratic for the ideal endpoints
    away from its degenerate leading coefficient)"""
    p = np.array(draw(s_timelike(n, scale=1.0)))
    e = np.array(draw(gen.directions(n)))
    d = draw(fl(dmin, dmax))
    w = _minkowski_tangent(p, e)
    q = math.cosh(d) * p + math.sinh(d) * w
    lam = draw(fl(0.5, 2.0))
    s1 = draw(st.sampled_from([1.0, -1.0]))
    s2 = draw(st.sampled_from([1.0, -1.0]))
    return [(s1 * lam * p).tolist(), (s2 * lam * q).tolist()]


@st.composite
def s_geodesic_rows(draw, n, sep=0.4):
    """two ideal points whose directions are at Euclidean distance >= sep"""
    a = draw(gen.directions(n))
    b = draw(gen.directions(n))
    if math.sqrt(sum((x - y) ** 2 for x, y in zip(a, b))) < sep:
        b = [-x for x in a]
    s1 = draw(gen.scalars_pm(0.5, 2.0))
    s2 = draw(gen.scalars_pm(0.5, 2.0))
    return [[s1] + [s1 * x for x in a], [s2] + [s2 * x for x in b]]


@st.composite
def s_tangent_rows(draw, n):
    """(base point, vector): the vector is a tangent direction of size >= 0.5 plus an
    arbitrary multiple of the base point (the constructor projects it away)"""
    p = np.array(draw(s_timelike(n, scale=1.0)))
    e = np.array(draw(gen.directions(n)))
    w = _minkowski_tangent(p, e)
    size = draw(gen.scalars_pm(0.5, 2.0))
    c = draw(st.sampled_from([0.0, 0.0, 1.0])) * draw(fl(-1.0, 1.0))
    s = draw(gen.scalars_pm(0.5, 2.0))
    return [(s * p).tolist(), (size * w + c * p).tolist()]


def boost(n, axis, t):
    """column matrix of the boost of R^(n,1) by rapidity t along spatial axis `axis`"""
    M = np.eye(n + 1)
    M[0, 0] = M[axis + 1, axis + 1] = math.cosh(t)
    M[0, axis + 1] = M[axis + 1, 0] = math.sinh(t)
    return M


@st.composite
def s_isometry(draw, n, tmax=1.2, factors=None):
    """element of O(n,1) as a nested list (column matrix): R1 B1 R2 [B2 R3], boosts of
    rapidity <= tmax along coordinate axes, R_i in O(n) (reflections included),
    optionally composed with the time reversal diag(-1,1,..,1)"""
    k = draw(st.integers(1, 2)) if factors is None else factors
    M = np.eye(n + 1)
    for _ in range(k):
        R = np.eye(n + 1)
        R[1:, 1:] = np.array(draw(gen.orthogonal_matrix(n)))
        t = draw(st.one_of(fl(-tmax, tmax), st.sampled_from([0.0, 0.5, -1.0])))
        ax = draw(st.integers(0, n - 1))
        M = M @ R @ boost(n, ax, t)
    R = np.eye(n + 1)
    R[1:, 1:] = np.array(draw(gen.orthogonal_matrix(n)))
    M = M @ R
    if draw(st.integers(0, 5)) == 0:
        M[0, :] *= -1.0
    return M.tolist()


@st.composite
def s_matrix(draw, m, complex_=False, maxfactor=3.0):
    """invertible m x m matrix (JSON, real or complex), cond <~ 1e3"""
    rows = draw(gen.wellcond_matrix(m, complex_=complex_, maxfactor=maxfactor))
    if complex_:
        a = np.array(rows, dtype=float)
        return enc(a[..., 0] + 1j * a[..., 1])
    return rows


@st.composite
def s_cvec(draw, m, complex_):
    re = draw(s_vec(m))
    if not complex_:
        return re
    im = [draw(fl(-1.0, 1.0)) for _ in range(m)]
    return (re, im)


def _rows(rows, complex_):
    if not complex_:
        return [list(r) for r in rows]
    return {"re": [list(r[0]) for r in rows], "im": [list(r[1]) for r in rows]}


# --------------------------------------------------------------------------- kinds
# name -> (hyperbolic?, minimal dimension, unit_ndims, aux_ndims)
KINDS = {
    "P.Point": (False, 1, 1, 0),
    "P.PointPair": (False, 1, 2, 0),
    "P.Polygon": (False, 1, 2, 3),
    "P.Simplex": (False, 1, 2, 0),
    "P.Subspace": (False, 1, 2, 0),
    "P.Transformation": (False, 1, 2, 0),
    "H.Point": (True, 1, 1, 0),
    "H.IdealPoint": (True, 1, 1, 0),
    "H.PointPair": (True, 1, 2, 0),
    "H.Segment": (True, 1, 2, 2),
    "H.Geodesic": (True, 1, 2, 0),
    "H.Polygon": (True, 1, 2, 3),
    "H.TangentVector": (True, 1, 2, 2),
    "H.Horosphere": (True, 1, 2, 0),
    "H.Hyperplane": (True, 2, 2, 0),
    "H.Isometry": (True, 1, 2, 0),
}
ALL_KINDS = list(KINDS)
P_KINDS = [k for k in ALL_KINDS if not KINDS[k][0]]
H_KINDS = [k for k in ALL_KINDS if KINDS[k][0]]
AUX_KINDS = [k for k in ALL_KINDS if KINDS[k][3] > 0]
MATRIX_KINDS = ("P.Transformation", "H.Isometry")

CLASSES = {
    "P.Point": P.Point, "P.PointPair": P.PointPair, "P.Polygon": P.Polygon,
    "P.Simplex": P.Simplex, "P.Subspace": P.Subspace,
    "P.Transformation": P.Transformation,
    "H.Point": H.Point, "H.IdealPoint": H.IdealPoint, "H.PointPair": H.PointPair,
    "H.Segment": H.Segment, "H.Geodesic": H.Geodesic, "H.Polygon": H.Polygon,
    "H.TangentVector": H.TangentVector, "H.Horosphere": H.Horosphere,
    "H.Hyperplane": H.Hyperplane, "H.Isometry": H.Isometry,
}


def is_hyp(kind):
    return KINDS[kind][0]


def s_k(kind, n):
    """strategy for the per-composite row count parameter"""
    if kind in ("P.Polygon", "H.Polygon"):
        return st.integers(3, 5)
    if kind == "P.Simplex":
        return st.integers(2, n + 2)
    if kind == "P.Subspace":
        return st.integers(1, n + 1)
    return st.just(0)


@st.composite
def s_unit(draw, kind, n, k=0, complex_=False):
    """unit spec (rows) of one object of `kind` in dimension n"""
    m = n + 1
    if kind == "P.Point":
        return _rows([draw(s_cvec(m, complex_))], complex_)
    if kind == "P.PointPair":
        return _rows([draw(s_cvec(m, complex_)) for _ in range(2)], complex_)
    if kind in ("P.Polygon", "P.Simplex"):
        return _rows([draw(s_cvec(m, complex_)) for _ in range(k)], complex_)
    if kind == "P.Subspace":
        M = dec(draw(s_matrix(m, complex_)))
        return enc(M[:k])
    if kind == "P.Transformation":
        return draw(s_matrix(m, complex_))
    if kind == "H.Point":
        if draw(st.integers(0, 5)) == 0:
            return [draw(s_null(n))]
        return [draw(s_timelike(n))]
    if kind == "H.IdealPoint":
        return [draw(s_null(n))]
    if kind == "H.PointPair":
        return [draw(s_timelike(n)), draw(st.one_of(s_timelike(n), s_null(n)))]
    if kind == "H.Segment":
        return draw(s_segment_rows(n))
    if kind == "H.Geodesic":
        return draw(s_geodesic_rows(n))
    if kind == "H.Polygon":
        return [draw(s_timelike(n)) for _ in range(k)]
    if kind == "H.TangentVector":
        return draw(s_tangent_rows(n))
    if kind == "H.Horosphere":
        return [draw(s_null(n)), draw(s_timelike(n))]
    if kind == "H.Hyperplane":
        return [draw(s_spacelike(n))]
    if kind == "H.Isometry":
        return draw(s_isometry(n))
    raise HarnessError("unknown kind %r" % kind)


@st.composite
def s_object(draw, kind, n, shape, complex_=False):
    """dict(kind, n, shape, k, units, variant, field) describing one composite object"""
    k = draw(s_k(kind, n))
    units = [draw(s_unit(kind, n, k, complex_)) for _ in range(gen.prod(shape))]
    return dict(kind=kind, n=n, shape=list(shape), k=k, units=units,
                variant=draw(st.integers(0, 1)),
                field="complex" if complex_ else "real")


def unit_rows(kind, n, k):
    if kind in ("P.Point", "H.Point", "H.IdealPoint", "H.Hyperplane"):
        return 1
    if kind in ("P.Polygon", "P.Simplex", "P.Subspace", "H.Polygon"):
        return k
    if kind in MATRIX_KINDS:
        return n + 1
    return 2


def build(spec, shape=None, units=None, flavour=None):
    """library object of the spec (optionally of a sub-list of its units); `flavour` forces
    the memory layout of the arrays handed over (default: chosen by the data)"""
    kind, n, k, variant = spec["kind"], spec["n"], spec["k"], spec.get("variant", 0)
    shape = tuple(spec["shape"] if shape is None else shape)
    units = spec["units"] if units is None else units
    arr = dec_units(units, shape, (unit_rows(kind, n, k), n + 1))
    handed = []

    def give(x):
        # (in one of several memory layouts, chosen by the data)
        x = gen.flavoured(x, flavour)
        handed.append(x)
        return x
    obj = _build_kind(kind, variant, arr, lambda: give(arr.copy()),
                      lambda: give(arr[..., 0, :].copy()), lambda: give(arr[..., 1, :].copy()),
                      give)
    # the caller re-uses its buffers afterwards: an object must not keep reading its data
    # through an alias of an array it was constructed from
    for h in handed:
        if h.flags.writeable:
            h[...] = 777.0
    return obj


def _build_kind(kind, variant, arr, a, r0, r1, give):
    if kind == "P.Point":
        return P.Point(r0())
    if kind == "P.PointPair":
        return P.PointPair(a()) if variant == 0 else P.PointPair(r0(), r1())
    if kind == "P.Polygon":
        return P.Polygon(a()) if variant == 0 else P.Polygon(P.Point(a()))
    if kind == "P.Simplex":
        return P.Simplex(a())
    if kind == "P.Subspace":
        return P.Subspace(a())
    if kind == "P.Transformation":
        if variant == 0:
            return P.Transformation(a())
        return P.Transformation(give(np.swapaxes(arr, -1, -2).copy()), column_vectors=True)
    if kind == "H.Point":
        return H.Point(r0())
    if kind == "H.IdealPoint":
        return H.IdealPoint(r0())
    if kind == "H.PointPair":
        return H.PointPair(a()) if variant == 0 else H.PointPair(H.Point(r0()), r1())
    if kind == "H.Segment":
        return H.Segment(a()) if variant == 0 else H.Segment(H.Point(r0()), H.Point(r1()))
    if kind == "H.Geodesic":
        if variant == 0:
            return H.Geodesic(a())
        return H.Geodesic(H.IdealPoint(r0()), H.IdealPoint(r1()))
    if kind == "H.Polygon":
        return H.Polygon(a()) if variant == 0 else H.Polygon(H.Point(a()))
    if kind == "H.TangentVector":
        return H.TangentVector(a()) if variant == 0 else H.TangentVector(H.Point(r0()), r1())
    if kind == "H.Horosphere":
        if variant == 0:
            return H.Horosphere(a())
        return H.Horosphere(H.IdealPoint(r0()), H.Point(r1()))
    if kind == "H.Hyperplane":
        return H.Hyperplane(a())
    if kind == "H.Isometry":
        if variant == 0:
            return H.Isometry(a())
        return H.Isometry(give(np.swapaxes(arr, -1, -2).copy()), column_vectors=True)
    raise HarnessError("unknown kind %r" % kind)


def build_units(spec):
    """list of the unit objects (shape ()) of a composite spec, in C order"""
    return [build(spec, shape=(), units=[u]) for u in spec["units"]]


def snapshot(obj):
    """copies of (proj_data, aux_data) - many library calls rescale them in place"""
    aux = None if obj.aux_data is None else np.array(obj.aux_data, copy=True)
    return np.array(obj.proj_data, copy=True), aux


# --------------------------------------------------------------------------- transformations
def build_T(hyp, cols, col_flag):
    """Transformation / Isometry from an array (..., N, N) of *column* matrices, handed
    over as column matrices (col_flag) or as the transposed row matrices"""
    cls = H.Isometry if hyp else P.Transformation
    cols = np.asarray(cols)
    buf = gen.flavoured(cols.copy() if col_flag else np.swapaxes(cols, -1, -2).copy())
    T = cls(buf, column_vectors=bool(col_flag))
    if buf.flags.writeable:
        buf[...] = 777          # the caller re-uses its buffer (see build)
    return T


def act_rows(rows, col):
    """rows x (as row vectors) -> (M x)^T = x M^T for a column matrix M; `rows` may carry
    any number of leading axes in front of (.., N); `col` is one (N, N) matrix"""
    return np.asarray(rows) @ np.swapaxes(np.asarray(col), -1, -2)


def cond2(M):
    M = np.asarray(M)
    s = np.linalg.svd(M, compute_uv=False)
    return float(np.max(s[..., 0] / s[..., -1])) if M.size else 1.0


# --------------------------------------------------------------------------- comparison
def compare_data(ctx, name, kind, got, want, tol, **detail):
    """projective comparison of two data arrays of the same object kind: row by row
    (every row is a point of projective space), whole matrix for transformations"""
    got = np.asarray(got)
    want = np.asarray(want)
    ctx.check(got.shape == want.shape, name + ": data shapes differ", got=got.shape,
              want=want.shape, **detail)
    if got.size == 0:
        return
    if kind in MATRIX_KINDS:
        d = mat_proj_dist(got, want)
    else:
        d = proj_dist(got, want)
    ctx.small(name, d, tol, **detail)


def compare_objects(ctx, name, kind, got, want_proj, want_aux, tol, shape=None, **detail):
    """`got` is a library object; want_* are arrays"""
    ctx.check(type(got) is CLASSES[kind], name + ": result class", got=type(got).__name__,
              want=CLASSES[kind].__name__, **detail)
    if shape is not None:
        ctx.check(tuple(got.shape) == tuple(shape), name + ": composite shape",
                  got=got.shape, want=shape, **detail)
    compare_data(ctx, name + " [proj_data]", kind, got.proj_data, want_proj, tol, **detail)
    if want_aux is None:
        ctx.check(got.aux_data is None, name + ": unexpected aux_data", **detail)
    else:
        ctx.check(got.aux_data is not None, name + ": aux_data missing", **detail)
        compare_data(ctx, name + " [aux_data]", "rows", got.aux_data, want_aux, tol,
                     **detail)


def tangent_sign_ok(got_unit, want_unit):
    """a tangent vector unit (p, v) and (a p, b v) describe the same direction iff
    a b > 0: returns the sign of a*b estimated by least squares"""
    g = np.asarray(got_unit)
    w = np.asarray(want_unit)
    a = np.sum(g[..., 0, :] * w[..., 0, :], axis=-1)
    b = np.sum(g[..., 1, :] * w[..., 1, :], axis=-1)
    return a * b > 0


# --------------------------------------------------------------------------- misc strategies
@st.composite
def s_pick(draw, seq):
    """element of `seq`, close to uniformly (st.sampled_from is heavily skewed over a few
    hundred examples): a multiplicative hash of a drawn integer"""
    i = draw(st.integers(0, 2 ** 16 - 1))
    return seq[((i * 40503 + 12345) >> 3) % len(seq)]


@st.composite
def s_broadcast_pair(draw, max_rank=3, max_side=3, min_rank=0):
    """(shape_a, shape_b) that broadcast against each other by construction: a full shape
    is drawn, each side keeps a suffix of it and replaces some axes by 1; half of the time
    one axis is forced to be a genuine broadcast (size >= 2 on one side, 1 or missing on
    the other)"""
    full = list(draw(gen.shapes(max_rank=max_rank, max_side=max_side, min_rank=min_rank)))

    def sub(keep_all):
        r = len(full) if keep_all else draw(st.integers(0, len(full)))
        s = list(full[len(full) - r:])
        return [1 if draw(st.integers(0, 2)) == 0 else x for x in s]
    who = draw(st.integers(0, 2))
    a, b = sub(who in (0, 2)), sub(who in (1, 2))
    if full and draw(st.booleans()):
        j = draw(st.integers(1, len(full)))          # axis counted from the end
        big = max(full[-j], 2)
        a, b = list(a), list(b)
        long_, short = (a, b) if draw(st.booleans()) else (b, a)
        while len(long_) < j:
            long_.insert(0, 1)
        long_[-j] = big
        if len(short) >= j:
            short[-j] = 1
        # re-establish compatibility of the other axes of `long_` that were padded
    return a, b


def fill(seed, shape, lo=-2.0, hi=2.0):
    """deterministic pseudo-random array (pure function of seed and shape): an integer
    hash per position, mapped to [lo, hi)"""
    n = int(np.prod(shape)) if len(shape) else 1
    i = np.arange(n, dtype=np.uint64)
    x = (i + np.uint64(seed % (2 ** 31))) * np.uint64(2654435761) % np.uint64(2 ** 32)
    x = (x ^ (x >> np.uint64(15))) * np.uint64(40503) % np.uint64(2 ** 32)
    return (lo + (hi - lo) * x.astype(float) / 2.0 ** 32).reshape(shape)
