"""Plane geometry used by the C19 oracle (what matplotlib artists must look like),
written without any call into geometry_tools.

Conventions pinned here (see CONVENTIONS.md): isometries / projective maps are ROW
matrices (x -> x M); ``A @ B`` on library transformations applies B first, so the row
matrix of ``A @ B`` is ``M_B M_A``; Klein = affine chart x0 = 1 of R^(2,1)."""
import math
import numpy as np

from . import hyp as H

MOVETO, LINETO, CURVE4, CLOSEPOLY = 1, 2, 4, 79
J3 = np.diag([-1.0, 1.0, 1.0])


# --------------------------------------------------------------------------
# transforms
def rot3(a):
    c, s = math.cos(a), math.sin(a)
    return np.array([[1.0, 0, 0], [0, c, -s], [0, s, c]])


def boost3(t):
    c, s = math.cosh(t), math.sinh(t)
    return np.array([[c, s, 0], [s, c, 0], [0, 0, 1.0]])


def refl3():
    return np.diag([1.0, 1.0, -1.0])


def iso_from_params(a, t, b, flip):
    """row matrix of an element of O(2,1): rotation, boost along x, rotation, maybe a
    reflection"""
    M = rot3(a) @ boost3(t) @ rot3(b)
    if flip:
        M = M @ refl3()
    return M


def iso_inverse(M):
    """inverse of an O(2,1) row matrix without a linear solve: J M^T J"""
    M = np.asarray(M, dtype=float)
    return J3 @ M.T @ J3


def act_klein(K, M):
    """Klein coordinates of the image of Klein points K (.., 2) under the row matrix M"""
    K = np.asarray(K, dtype=float)
    X = np.concatenate([np.ones(K.shape[:-1] + (1,)), K], axis=-1) @ np.asarray(M, float)
    return X[..., 1:] / X[..., :1]


def act_proj(X, M):
    return np.asarray(X, dtype=float) @ np.asarray(M, dtype=float)


def run_program(prog, dim=3):
    """Row matrix of a drawing's transform after the given program of
    ('init'|'set'|'add'|'pre', matrix) steps.  add: new = T @ old (old acts first);
    pre: new = old @ T (T acts first)."""
    cur = np.eye(dim)
    for op, M in prog:
        M = np.asarray(M, dtype=float)
        if op in ("init", "set"):
            cur = M
        elif op == "add":
            cur = cur @ M          # x -> (x cur) M
        elif op == "pre":
            cur = M @ cur          # x -> (x M) cur
        else:
            raise ValueError(op)
    return cur


def chart_coords(X, chart):
    """affine coordinates of projective rows X in the standard chart `chart`"""
    X = np.asarray(X, dtype=float)
    keep = [i for i in range(X.shape[-1]) if i != chart]
    return X[..., keep] / X[..., chart:chart + 1]


def chart_lift(A, chart):
    """projective rows (with a 1 in position `chart`) of affine points A"""
    A = np.asarray(A, dtype=float)
    return np.insert(A, chart, 1.0, axis=-1)


# --------------------------------------------------------------------------
# model coordinates
def to_model(K, model):
    return H.klein_to_model(K, model)


def from_model(X, model):
    X = np.asarray(X, dtype=float)
    if model == "klein":
        return X
    if model == "poincare":
        return H.poincare_to_klein(X)
    if model == "halfspace":
        return H.poincare_to_klein(H.halfspace_to_poincare(X))
    raise ValueError(model)


def ideal_to_model(U, model):
    """U unit vectors (ideal points); half-plane: (x, 0), the point at infinity
    (U = (1,0)) gives nan"""
    U = np.asarray(U, dtype=float)
    if model in ("klein", "poincare"):
        return U
    with np.errstate(all="ignore"):
        # boundary of the Cayley transform used by H.poincare_to_halfspace: the
        # ideal point (cos a, sin a) goes to x = -sin a / (1 - cos a) ... computed
        # through the same inversion formula, height forced to 0
        X = H.poincare_to_halfspace(U)
    X = np.array(X)
    X[..., -1] = 0.0
    return X


def in_region(X, model, tol):
    X = np.asarray(X, dtype=float)
    if model in ("klein", "poincare"):
        return np.all(np.sum(X * X, axis=-1) <= 1.0 + tol)
    return np.all(X[..., 1] >= -tol)


# --------------------------------------------------------------------------
# the geodesic through two points as a Euclidean circle
def geodesic_circle(p, q, model):
    """(centre, radius) of the circle carrying the hyperbolic geodesic through the model
    points p, q (Poincare: the circle orthogonal to the unit circle; half-plane: the
    circle centred on the real axis).  Returns (None, inf) when the geodesic is a
    Euclidean straight line (diameter / vertical line)."""
    p = np.asarray(p, dtype=float)
    q = np.asarray(q, dtype=float)
    if model == "poincare":
        # |c|^2 = 1 + r^2 and |c-p|^2 = r^2  =>  2 c.p = 1 + |p|^2 (same for q)
        A = np.array([[2 * p[0], 2 * p[1]], [2 * q[0], 2 * q[1]]])
        b = np.array([1 + p @ p, 1 + q @ q])
        det = A[0, 0] * A[1, 1] - A[0, 1] * A[1, 0]
        if det == 0.0:
            return None, math.inf
        c = np.array([(b[0] * A[1, 1] - A[0, 1] * b[1]) / det,
                      (A[0, 0] * b[1] - b[0] * A[1, 0]) / det])
        r2 = c @ c - 1.0
        if not np.all(np.isfinite(c)) or not r2 > 0:
            return None, math.inf
        # radius from the distance to the endpoints (better conditioned than |c|^2-1)
        r = 0.5 * (math.hypot(*(p - c)) + math.hypot(*(q - c)))
        return c, r
    if model == "halfspace":
        dx = q[0] - p[0]
        if dx == 0.0:
            return None, math.inf
        cx = (q @ q - p @ p) / (2 * dx)
        if not math.isfinite(cx):
            return None, math.inf
        c = np.array([cx, 0.0])
        r = 0.5 * (math.hypot(*(p - c)) + math.hypot(*(q - c)))
        return c, r
    raise ValueError(model)


def geodesic_circle_ideal(u, v, model):
    """same for a bi-infinite geodesic with ideal endpoints (unit vectors u, v)"""
    u = np.asarray(u, float)
    v = np.asarray(v, float)
    if model == "poincare":
        # centre = pole of the chord: intersection of the tangents at u and v
        s = u + v
        d = s @ s
        if d < 1e-300:
            return None, math.inf
        c = 2.0 * s / d            # c.u = c.v = 1
        r = 0.5 * (math.hypot(*(u - c)) + math.hypot(*(v - c)))
        return c, r
    if model == "halfspace":
        a = ideal_to_model(u, model)
        b = ideal_to_model(v, model)
        if not (np.all(np.isfinite(a)) and np.all(np.isfinite(b))):
            return None, math.inf
        c = np.array([(a[0] + b[0]) / 2, 0.0])
        return c, abs(a[0] - b[0]) / 2
    raise ValueError(model)


def wrap(a):
    """angle (radians) wrapped to (-pi, pi]"""
    return (np.asarray(a) + math.pi) % (2 * math.pi) - math.pi


class ArcFrame:
    """The minor arc of the circle (c, r) between p and q (both on the circle): signed
    angle of a point measured from the bisector; p sits at -h or +h."""

    def __init__(self, c, r, p, q, upper=False):
        """upper=True (half-plane, centre on the real axis): the arc in the closed upper
        half plane, which may be a full semicircle (both endpoints ideal)"""
        self.c, self.r = np.asarray(c, float), float(r)
        if upper:
            a = math.atan2(max(p[1] - c[1], 0.0), p[0] - c[0])
            b = math.atan2(max(q[1] - c[1], 0.0), q[0] - c[0])
            d = b - a                   # both angles lie in [0, pi]
        else:
            a = math.atan2(p[1] - c[1], p[0] - c[0])
            b = math.atan2(q[1] - c[1], q[0] - c[0])
            d = float(wrap(b - a))      # signed sweep from p to q along the minor arc
        self.a_start = a
        self.sweep = d
        self.mid = a + d / 2
        self.h = abs(d) / 2
        # counter-clockwise ordering used by matplotlib arcs
        self.ccw_first = a if d >= 0 else b
        self.ccw_last = b if d >= 0 else a

    def signed(self, X):
        X = np.asarray(X, dtype=float)
        return wrap(np.arctan2(X[..., 1] - self.c[1], X[..., 0] - self.c[0]) - self.mid)

    def radial(self, X):
        X = np.asarray(X, dtype=float)
        return np.hypot(X[..., 0] - self.c[0], X[..., 1] - self.c[1]) - self.r


# --------------------------------------------------------------------------
# paths
class PathGrammarError(Exception):
    pass


def parse_chunks(vertices, codes):
    """Split a path assembled edge by edge into chunks.  Grammar:
       path  := chunk+ ;  chunk := START (CURVE4 CURVE4 CURVE4)+ | START LINETO
       START := MOVETO (first chunk only) | LINETO.
    Returns a list of dicts(kind='arc'|'line', pts=(k,2) array incl. the start)."""
    V = np.asarray(vertices, dtype=float)
    C = [int(c) for c in codes]
    if len(C) != len(V):
        raise PathGrammarError("codes/vertices length mismatch")
    if not C or C[0] != MOVETO:
        raise PathGrammarError("path does not start with MOVETO")
    if C.count(MOVETO) != 1:
        raise PathGrammarError("path has %d MOVETO codes (must be one closed "
                               "continuous outline)" % C.count(MOVETO))
    chunks = []
    i = 0
    n = len(C)
    while i < n:
        if not (C[i] == LINETO or (i == 0 and C[i] == MOVETO)):
            raise PathGrammarError("unexpected code %d at %d" % (C[i], i))
        start = i
        i += 1
        if i >= n:
            raise PathGrammarError("dangling start vertex at the end of the path")
        if C[i] == CURVE4:
            j = i
            while j < n and C[j] == CURVE4:
                j += 1
            if (j - i) % 3 != 0:
                raise PathGrammarError("CURVE4 run of length %d" % (j - i))
            chunks.append(dict(kind="arc", pts=V[start:j]))
            i = j
        elif C[i] == LINETO:
            chunks.append(dict(kind="line", pts=V[start:i + 1]))
            i += 1
        else:
            raise PathGrammarError("unexpected code %d at %d" % (C[i], i))
    return chunks


def bezier_points(pts, per=8):
    """points of a chain of cubic Beziers (control polygon pts: 3m+1 rows) at `per`
    equally spaced parameters per cubic (plus the final knot); own evaluation."""
    pts = np.asarray(pts, dtype=float)
    m = (len(pts) - 1) // 3
    t = (np.arange(per) / per)[:, None]
    out = []
    for k in range(m):
        P0, P1, P2, P3 = pts[3 * k: 3 * k + 4]
        out.append((1 - t) ** 3 * P0 + 3 * (1 - t) ** 2 * t * P1
                   + 3 * (1 - t) * t ** 2 * P2 + t ** 3 * P3)
    out.append(pts[-1:])
    return np.concatenate(out, axis=0)


def bezier_arc_error(r, per_cubic_angle):
    """radial error of the standard cubic approximation of a circular arc of the given
    angle (calibrated: 1.25e-4 * angle^6 relative; factor 2 margin)"""
    return r * (2.5e-4 * per_cubic_angle ** 6 + 1e-12)


# --------------------------------------------------------------------------
# horocycles
def horocircle(u, p, model):
    """Euclidean circle (centre, radius) of the horocycle centred at the ideal point u
    (unit vector) through the model point p.  Half-plane with u at infinity: (None, y)."""
    u = np.asarray(u, float)
    p = np.asarray(p, float)
    if model == "poincare":
        rho = ((p - u) @ (p - u)) / (2 * (1 - p @ u))
        return (1 - rho) * u, rho
    if model == "halfspace":
        a = ideal_to_model(u, model)
        if not np.all(np.isfinite(a)):
            return None, float(p[1])
        rho = ((p[0] - a[0]) ** 2 + p[1] ** 2) / (2 * p[1])
        return np.array([a[0], rho]), rho
    raise ValueError(model)


def busemann(u, X, model):
    """Busemann function (up to an additive constant fixed by u) at model points X;
    constant exactly on horocycles centred at u."""
    X = np.asarray(X, float)
    u = np.asarray(u, float)
    with np.errstate(all="ignore"):
        if model == "poincare":
            return np.log(np.sum((X - u) ** 2, axis=-1) / (1 - np.sum(X * X, axis=-1)))
        a = ideal_to_model(u, model)
        if not np.all(np.isfinite(a)):
            return -np.log(X[..., 1])
        return np.log(((X[..., 0] - a[0]) ** 2 + X[..., 1] ** 2) / X[..., 1])
