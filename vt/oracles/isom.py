"""Closed forms about O(n,1) written independently of the library (used by C02, C13).

Row convention throughout (x -> x M), form J = diag(-1,1,...,1), origin e0=(1,0,..,0).
"""
import math
import numpy as np

from ..num import mink, minkowski_form


# --------------------------------------------------------------------- forms
def form_residual(M):
    """max |M J M^T - J| over the last two axes (per unit), for row matrices M."""
    M = np.asarray(M, dtype=float)
    J = minkowski_form(M.shape[-1])
    R = M @ J @ np.swapaxes(M, -1, -2) - J
    return np.max(np.abs(R), axis=(-1, -2))


def opnorm(M):
    """spectral norm per unit matrix"""
    M = np.asarray(M, dtype=float)
    return np.linalg.norm(M, 2, axis=(-2, -1))


def o_n1_inverse(M):
    """inverse of a form-preserving matrix written without a linear solve: J M^T J"""
    M = np.asarray(M, dtype=float)
    J = minkowski_form(M.shape[-1])
    return J @ np.swapaxes(M, -1, -2) @ J


# --------------------------------------------------------------- hyperboloid
def hyperboloid_from_klein(k):
    k = np.asarray(k, dtype=float)
    r2 = np.sum(k * k, axis=-1, keepdims=True)
    w = 1.0 / np.sqrt(1.0 - r2)
    return np.concatenate([w, w * k], axis=-1)


def to_hyperboloid(x):
    """upper-sheet unit representative of timelike projective coordinates"""
    x = np.asarray(x, dtype=float)
    q = -mink(x, x)
    s = np.where(x[..., 0] < 0, -1.0, 1.0) / np.sqrt(q)
    return x * s[..., None]


def klein_of(x):
    x = np.asarray(x, dtype=float)
    return x[..., 1:] / x[..., :1]


def dist_h(a, b):
    """distance between upper-sheet unit vectors; cancellation free"""
    d = np.asarray(a, dtype=float) - np.asarray(b, dtype=float)
    q = mink(d, d)
    x = np.maximum(q, 0.0) / 2.0
    return np.log1p(x + np.sqrt(x * (x + 2.0)))


def dist_proj(a, b):
    return dist_h(to_hyperboloid(a), to_hyperboloid(b))


def dist_tol(a_h, b_h, d, eps=1e-13, growth=1.0):
    """tolerance on a distance that was (or could have been) obtained as arccosh of a
    Minkowski product of unit representatives of Euclidean sizes |a_h|, |b_h| after a
    computation whose relative error is eps*growth: the product carries delta ~
    eps*growth*|a||b| and d carries min(sqrt(2 delta), delta / sinh d)."""
    na = np.sqrt(np.sum(np.asarray(a_h) ** 2, axis=-1))
    nb = np.sqrt(np.sum(np.asarray(b_h) ** 2, axis=-1))
    delta = eps * growth * na * nb
    with np.errstate(all="ignore"):
        t = np.minimum(np.sqrt(2 * delta), delta / np.maximum(np.sinh(d), 1e-300))
    return 1e-10 + 4 * t


def tangent_part(p, v):
    """component of v Minkowski-orthogonal to the timelike vector p"""
    p = np.asarray(p, dtype=float)
    v = np.asarray(v, dtype=float)
    return v - (mink(v, p) / mink(p, p))[..., None] * p


def exp_map(p_h, u, t):
    """cosh(t) p + sinh(t) u for a unit timelike p_h and a unit tangent u at p_h"""
    t = np.asarray(t, dtype=float)[..., None]
    return np.cosh(t) * p_h + np.sinh(t) * u


def boost(k):
    """the symmetric row matrix in O(n,1) taking e0 to the hyperboloid point over the
    Klein point k (pure translation along the geodesic from the origin)"""
    x = hyperboloid_from_klein(np.asarray(k, dtype=float))
    x0, xs = float(x[0]), x[1:]
    n = len(xs)
    B = np.zeros((n + 1, n + 1))
    B[0, 0] = x0
    B[0, 1:] = xs
    B[1:, 0] = xs
    B[1:, 1:] = np.eye(n) + np.outer(xs, xs) / (1.0 + x0)
    return B


def frame_isometry(k, O):
    """row matrix in O(n,1): block rotation O (n x n, rows = images of e1..en) followed
    by the boost to k; sends e0 to the point over k and e_i to O[i-1] transported to k"""
    n = len(k)
    E = np.eye(n + 1)
    E[1:, 1:] = np.asarray(O, dtype=float)
    return E @ boost(k)


def direction_defect(w, v):
    """(c, rel) with c the Minkowski coefficient of w along v (w ~ c v) and rel the
    Euclidean size of w - c v relative to |w|; v, w spacelike"""
    w = np.asarray(w, dtype=float)
    v = np.asarray(v, dtype=float)
    c = mink(w, v) / mink(v, v)
    r = w - c[..., None] * v
    rel = np.sqrt(np.sum(r * r, axis=-1) / np.sum(w * w, axis=-1))
    return c, rel


def angle_between(p, a, b):
    """angle at the timelike p between the tangential parts of a and b"""
    u = tangent_part(p, a)
    w = tangent_part(p, b)
    c = mink(u, w) / np.sqrt(mink(u, u) * mink(w, w))
    return np.arccos(np.clip(c, -1.0, 1.0))


# ------------------------------------------------------------ regular polygons
def ngon_radius_from_angle(n, a):
    """circumradius of the regular hyperbolic n-gon with interior angle a: the right
    triangle (centre, vertex, midpoint of a side) has angles pi/n, a/2, pi/2, so
    cosh r = cot(pi/n) cot(a/2)"""
    return math.acosh(1.0 / (math.tan(math.pi / n) * math.tan(a / 2.0)))


def ngon_angle_from_radius(n, r):
    return 2.0 * math.atan(1.0 / (math.tan(math.pi / n) * math.cosh(r)))


def chord(r, theta):
    """distance between two points at distance r from a centre seen under angle theta"""
    x = math.sinh(r) ** 2 * (1.0 - math.cos(theta))     # cosh d - 1
    return math.log1p(x + math.sqrt(x * (x + 2.0)))


# ------------------------------------------------------------------- Coxeter
def cosine_form(cox):
    """B_ij = -cos(pi / m_ij), m_ij <= 0 meaning infinity (B_ij = -1)"""
    m = np.asarray(cox, dtype=float)
    B = np.empty(m.shape)
    for i in range(m.shape[0]):
        for j in range(m.shape[1]):
            B[i, j] = -1.0 if m[i, j] <= 0 else -math.cos(math.pi / m[i, j])
    return B


def signature(B, tol=1e-9):
    ev = np.linalg.eigvalsh(np.asarray(B, dtype=float))
    return (int(np.sum(ev > tol)), int(np.sum(ev < -tol)), int(np.sum(np.abs(ev) <= tol)),
            float(np.min(np.abs(ev))))
