"""Reference models for automaton-driven enumeration (C06).

Everything here works on the plain *model dict* ``{vertex: {label: head}}`` a
case was generated from (never on FSA internals), on Python integers for the
exact representation, and on a regex reader of the builtin kbmag files that is
independent of the library's GAP parser.
"""
import os
import re
import collections


# ---------------------------------------------------------------------------
# path enumeration on a model dict
def layers(model, src, L):
    """layers[j] = list of (labels tuple, end vertex) of all paths of length j
    starting at src, j = 0..L (one entry per path)."""
    out = [[((), src)]]
    for _ in range(L):
        nxt = []
        for (w, v) in out[-1]:
            for lab, head in model.get(v, {}).items():
                nxt.append((w + (lab,), head))
        out.append(nxt)
    return out


def expected_paths(model, start, L, maxlen=True, start_state=None, end_state=None):
    """label tuples of the paths automaton_accepted has to report (a list, one
    entry per path)."""
    src = start if start_state is None else start_state
    lay = layers(model, src, L)
    sel = lay if maxlen else lay[L:L + 1]
    res = []
    for layer in sel:
        for (w, v) in layer:
            if end_state is None or v == end_state:
                res.append(w)
    return res


def count_paths(model, L):
    """max over source vertices of the number of paths of length <= L"""
    verts = list(model)
    cnt = {v: 1 for v in verts}
    tot = {v: 1 for v in verts}
    for _ in range(L):
        new = {}
        for v in verts:
            new[v] = sum(cnt[h] for h in model[v].values())
        cnt = new
        for v in verts:
            tot[v] += cnt[v]
    return max(tot.values()) if tot else 1


def has_cycle(model):
    color = {}

    def visit(v):
        color[v] = 1
        for h in model.get(v, {}).values():
            c = color.get(h, 0)
            if c == 1:
                return True
            if c == 0 and visit(h):
                return True
        color[v] = 2
        return False
    return any(color.get(v, 0) == 0 and visit(v) for v in list(model))


def sources(model):
    """vertices without incoming edges"""
    heads = set()
    for v, nb in model.items():
        heads.update(nb.values())
    return [v for v in model if v not in heads]


def multiple_model(model, start, k):
    """model dict of the k-fold automaton on the vertices reachable from start by
    k-step jumps; labels are tuples of k base labels"""
    new = {}
    todo = collections.deque([start])
    while todo:
        v = todo.popleft()
        if v in new:
            continue
        new[v] = {}
        for (w, h) in layers(model, v, k)[k]:
            new[v][w] = h
            if h not in new:
                todo.append(h)
    return new


# ---------------------------------------------------------------------------
# exact integer matrices
def imat_mul(A, B):
    n = len(A)
    return [[sum(A[i][k] * B[k][j] for k in range(n)) for j in range(n)]
            for i in range(n)]


def imat_id(n):
    return [[1 if i == j else 0 for j in range(n)] for i in range(n)]


def imat2_inv(A):
    """inverse of a 2x2 integer matrix of determinant 1"""
    (a, b), (c, d) = A
    det = a * d - b * c
    assert det == 1
    return [[d, -b], [-c, a]]


SANOV_X = [[1, 2], [0, 1]]
SANOV_Y = [[1, 0], [2, 1]]


def _w(word):
    """image of a word in x, y, X, Y under the Sanov representation"""
    tab = {"x": SANOV_X, "y": SANOV_Y, "X": imat2_inv(SANOV_X), "Y": imat2_inv(SANOV_Y)}
    M = imat_id(2)
    for c in word:
        M = imat_mul(M, tab[c])
    return M


# free bases (as words in the Sanov generators x, y of the free group Gamma(2)/+-1):
#  rank 1, 2: x, y;  rank 3: xy, yy, yx generate the even-length subgroup (index 2,
#  rank 3, and xx = (xy)(yy)^-1(yx)), so they are a free basis;  rank 4: Schreier basis of
#  the kernel of x, y -> 1 in Z/3 for the transversal 1, x, xx.
FREE_BASES = {
    1: ["x"],
    2: ["x", "y"],
    3: ["xy", "yy", "yx"],
    4: ["yX", "xyXX", "xxx", "xxy"],
}
# six small matrices for the builtin automata (no freeness claimed)
SIX = ["x", "y", "xy", "yx", "xxy", "yyx"]


def sanov_family(k, pool=None):
    """dict letter -> integer matrix for generators a, b, ... and inverses A, B, ..."""
    words = (pool or FREE_BASES[k])[:k]
    gens = {}
    for i, w in enumerate(words):
        g = "abcdefghijklmnopqrstuvwxyz"[i]
        gens[g] = _w(w)
        gens[g.upper()] = imat2_inv(gens[g])
    return gens


def word_image_int(gens, letters):
    n = len(next(iter(gens.values())))
    M = imat_id(n)
    for g in letters:
        M = imat_mul(M, gens[g])
    return M


def norm_inf(M):
    return max(sum(abs(x) for x in row) for row in M)


# ---------------------------------------------------------------------------
# freely reduced words
def inv_letter(g):
    return g.upper() if g.lower() == g else g.lower()


def freely_reduced_words(gens_lower, L):
    """list of layers: all freely reduced words of length j, j = 0..L"""
    alphabet = []
    for g in gens_lower:
        alphabet += [g, g.upper()]
    out = [[""]]
    for _ in range(L):
        nxt = []
        for w in out[-1]:
            for g in alphabet:
                if not w or w[-1] != inv_letter(g):
                    nxt.append(w + g)
        out.append(nxt)
    return out


# ---------------------------------------------------------------------------
# the builtin kbmag files, read with a regex (independent of gap_parse)
def read_builtin_model(path):
    """(model dict with 1-based int vertices, start vertex, label names)"""
    with open(path) as f:
        s = f.read()
    fmt = re.search(r'format\s*:=\s*"dense deterministic"', s)
    if not fmt:
        raise ValueError("unexpected table format in " + path)
    names = re.search(r"names\s*:=\s*\[([^\]]*)\]", s).group(1)
    names = [x.strip() for x in names.split(",")]
    initial = re.search(r"initial\s*:=\s*\[\s*(\d+)\s*\]", s).group(1)
    tr = s[s.index("transitions"):]
    tr = tr[tr.index("[") + 1:]
    rows = re.findall(r"\[([0-9,\s]*)\]", tr)
    model = {}
    for i, row in enumerate(rows):
        targets = [int(x) for x in row.replace(" ", "").replace("\n", "").split(",") if x]
        if len(targets) != len(names):
            raise ValueError("row width in " + path)
        model[i + 1] = {lab: t for lab, t in zip(names, targets) if t != 0}
    size = int(re.search(r"states\s*:=\s*rec\(\s*type\s*:=\s*\"simple\",\s*size\s*:=\s*(\d+)",
                         s).group(1))
    if size != len(model):
        raise ValueError("state count in " + path)
    return model, int(initial), names


def builtin_dir(repo):
    return os.path.join(repo, "geometry_tools", "automata", "builtin")
