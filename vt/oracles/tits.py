"""Two independent solutions of the word problem in a Coxeter group (C07).

(T) `TitsOracle`: Tits' theorem.  A word is reduced iff no word of its braid-move
    class contains a factor `ss`; two reduced words represent the same element iff
    they are braid-equivalent.  Purely combinatorial and exact.  The element of a
    reduced word is identified with the (frozen) set of all its reduced expressions,
    its name is the lexicographically least of them.

(R) `RootOracle`: the geometric representation on the root basis, written here
    from the definition  s_i(v) = v - 2 B(alpha_i, v) alpha_i,  B_ij = -cos(pi/m_ij)
    (-1 for m = infinity).  l(ws) < l(w)  iff  w(alpha_s) is a negative root.  Nonzero
    coefficients of a root have modulus >= 1, so the sign is read off any coefficient
    beyond +-1/2.  Arithmetic: float64 for short words, `decimal` with 150 digits for
    long ones.

Words are tuples of generator indices 0..n-1; a Coxeter matrix is a list of lists
with m_ii = 1, m_ij >= 2 finite, and 0 for infinity (use `normalise`).
"""
import math
import decimal


class OracleError(Exception):
    """an oracle's own precondition failed (harness error, never a library defect)"""


def normalise(matrix):
    """entries <= 0 mean infinity -> 0; checks symmetry and the diagonal"""
    n = len(matrix)
    m = [[0] * n for _ in range(n)]
    for i in range(n):
        for j in range(n):
            x = int(matrix[i][j])
            m[i][j] = x if x > 0 else 0
    for i in range(n):
        if m[i][i] != 1:
            raise OracleError("diagonal of a Coxeter matrix must be 1")
        for j in range(n):
            if m[i][j] != m[j][i] or (i != j and m[i][j] == 1):
                raise OracleError("not a Coxeter matrix")
    return m


# ---------------------------------------------------------------------------
# (T)
def braid_neighbours(m, w):
    n = len(w)
    for i in range(n - 1):
        s, t = w[i], w[i + 1]
        if s == t:
            continue
        k = m[s][t]
        if k == 0 or i + k > n:
            continue
        ok = True
        for j in range(k):
            if w[i + j] != (s if j % 2 == 0 else t):
                ok = False
                break
        if ok:
            yield w[:i] + tuple(t if j % 2 == 0 else s for j in range(k)) + w[i + k:]


class Overflow(Exception):
    pass


def braid_class(m, w, limit=None):
    w = tuple(w)
    seen = {w}
    todo = [w]
    while todo:
        u = todo.pop()
        for v in braid_neighbours(m, u):
            if v not in seen:
                seen.add(v)
                todo.append(v)
        if limit is not None and len(seen) > limit:
            raise Overflow()
    return seen


def has_square(w):
    for i in range(len(w) - 1):
        if w[i] == w[i + 1]:
            return i
    return -1


class TitsOracle:
    def __init__(self, matrix):
        self.m = normalise(matrix)
        self.n = len(self.m)

    def reduced_class(self, word):
        """frozenset of all reduced expressions of the element of `word`"""
        w = tuple(word)
        while True:
            cls = braid_class(self.m, w)
            shorter = None
            for u in cls:
                i = has_square(u)
                if i >= 0:
                    shorter = u[:i] + u[i + 2:]
                    break
            if shorter is None:
                return frozenset(cls)
            w = shorter

    def is_reduced(self, word):
        return all(has_square(u) < 0 for u in braid_class(self.m, tuple(word)))

    def length(self, word):
        return len(next(iter(self.reduced_class(word))))

    def shortlex(self, word):
        return min(self.reduced_class(word))

    def full_length(self, cap=40000):
        """for a finite group with at most `cap` reduced words in all: 1 + length of the
        longest element (so that a ball of that radius ends with an empty sphere); None
        if the enumeration exceeds the cap or reaches length 64"""
        spheres = [{(): frozenset([()])}]
        total = 1
        while spheres[-1] and len(spheres) < 64:
            try:
                nxt = self._next_sphere(spheres[-1], budget=cap - total)
            except Overflow:
                return None
            total += sum(len(c) for c in nxt.values())
            if total > cap:
                return None
            spheres.append(nxt)
        return len(spheres) - 1 if not spheres[-1] else None

    def _next_sphere(self, sphere, budget=None):
        nxt = {}
        seen_words = set()
        for name, cls in sphere.items():
            desc = {u[-1] for u in cls if u}
            for s in range(self.n):
                if s in desc:
                    continue
                w = name + (s,)
                if w in seen_words:
                    continue
                c = braid_class(self.m, w, limit=budget)
                for u in c:
                    if has_square(u) >= 0:
                        raise OracleError("exchange argument and Tits' theorem disagree "
                                          "on %r" % (u,))
                seen_words.update(c)
                if budget is not None and len(seen_words) > budget:
                    raise Overflow()
                nxt[min(c)] = frozenset(c)
        return nxt

    def ball(self, L):
        """spheres[k] = {shortlex name: frozenset of all reduced expressions} for the
        elements of length k, k = 0..L.  Built from the right: g.s is longer than g
        iff no reduced expression of g ends in s (if g.s were shorter, a reduced
        expression of g.s followed by s would be a reduced expression of g)."""
        spheres = [{(): frozenset([()])}]
        for k in range(L):
            nxt = self._next_sphere(spheres[-1])
            spheres.append(nxt)
            if not nxt:
                break
        while len(spheres) < L + 1:
            spheres.append({})
        return spheres


# ---------------------------------------------------------------------------
# (R)
def _dec_pi(prec):
    # Machin-like: pi = 16 atan(1/5) - 4 atan(1/239)
    D = decimal.Decimal

    def atan_inv(x):
        x = D(x)
        total = term = 1 / x
        x2 = x * x
        k = 1
        eps = D(10) ** (-(prec + 5))
        while abs(term) > eps:
            term = -term / x2
            k += 2
            total += term / k
        return total
    return 16 * atan_inv(5) - 4 * atan_inv(239)


def _dec_cos(x, prec):
    D = decimal.Decimal
    eps = D(10) ** (-(prec + 5))
    total = term = D(1)
    k = 0
    x2 = x * x
    while abs(term) > eps:
        k += 2
        term = -term * x2 / (k * (k - 1))
        total += term
    return total


class RootOracle:
    def __init__(self, matrix, exact=False, prec=150):
        self.m = normalise(matrix)
        self.n = len(self.m)
        self.exact = exact
        n = self.n
        if exact:
            self.ctx = decimal.Context(prec=prec + 10)
            with decimal.localcontext(self.ctx):
                D = decimal.Decimal
                pi = _dec_pi(prec)
                cosines = {}
                B2 = [[None] * n for _ in range(n)]
                for i in range(n):
                    for j in range(n):
                        k = self.m[i][j]
                        if i == j:
                            B2[i][j] = D(2)
                        elif k == 0:
                            B2[i][j] = D(-2)
                        elif k == 2:
                            B2[i][j] = D(0)
                        elif k == 3:
                            B2[i][j] = D(-1)
                        else:
                            if k not in cosines:
                                cosines[k] = -2 * _dec_cos(pi / k, prec)
                            B2[i][j] = cosines[k]
                self.B2 = B2
                self.half = D(1) / 2
                self.one, self.zero = D(1), D(0)
        else:
            self.ctx = None
            self.B2 = [[2.0 if i == j else (-2.0 if self.m[i][j] == 0 else
                                            (0.0 if self.m[i][j] == 2 else
                                             (-1.0 if self.m[i][j] == 3 else
                                              -2.0 * math.cos(math.pi / self.m[i][j]))))
                        for j in range(n)] for i in range(n)]
            self.half, self.one, self.zero = 0.5, 1.0, 0.0

    # -- root arithmetic --------------------------------------------------
    def _reflect(self, s, v):
        row = self.B2[s]
        acc = self.zero
        for j in range(self.n):
            if v[j]:
                acc += row[j] * v[j]
        v[s] = v[s] - acc

    def _sign(self, v):
        h = self.half
        nh = -h
        pos = neg = False
        for x in v:
            if x > h:
                pos = True
            elif x < nh:
                neg = True
        if pos == neg:
            raise OracleError("root oracle lost precision (vector %r)" % (v,))
        return 1 if pos else -1

    def _run(self, f):
        if self.exact:
            with decimal.localcontext(self.ctx):
                return f()
        return f()

    def root_sign(self, word, s):
        """sign of the root w(alpha_s)"""
        def f():
            v = [self.zero] * self.n
            v[s] = self.one
            for letter in reversed(word):
                self._reflect(letter, v)
            return self._sign(v)
        return self._run(f)

    def right_descent(self, word, s):
        """l(ws) < l(w) for the element w of a (not necessarily reduced) word"""
        return self.root_sign(word, s) < 0

    def right_descents(self, word):
        return [s for s in range(self.n) if self.right_descent(word, s)]

    def left_descents(self, word):
        rev = tuple(reversed(word))
        return [s for s in range(self.n) if self.right_descent(rev, s)]

    def _times(self, u, s):
        """reduced word of u.s for a reduced word u (strong exchange: delete the
        letter at which alpha_s, pushed through u from the right, turns negative)"""
        def f():
            v = [self.zero] * self.n
            v[s] = self.one
            for j in range(len(u) - 1, -1, -1):
                self._reflect(u[j], v)
                if self._sign(v) < 0:
                    return u[:j] + u[j + 1:]
            return u + (s,)
        return self._run(f)

    def reduce(self, word):
        u = ()
        for s in word:
            u = self._times(u, s)
        return u

    def length(self, word):
        return len(self.reduce(word))

    def is_reduced(self, word):
        return len(self.reduce(word)) == len(word)

    def shortlex(self, word):
        """lexicographically least reduced expression: repeatedly strip the least
        left descent"""
        cur = self.reduce(word)
        out = []
        while cur:
            rev = tuple(reversed(cur))
            for s in range(self.n):
                if self.right_descent(rev, s):
                    break
            else:
                raise OracleError("non-trivial element without left descent")
            out.append(s)
            nr = self._times(rev, s)
            if len(nr) != len(rev) - 1:
                raise OracleError("descent did not shorten")
            cur = tuple(reversed(nr))
        return tuple(out)


    def is_shortlex(self, word):
        """word is reduced and is the least reduced expression of its element (same
        computation as `shortlex`, stopping at the first differing letter)"""
        word = tuple(word)
        if not self.is_reduced(word):
            return False
        cur = word
        for pos in range(len(word)):
            rev = tuple(reversed(cur))
            for s in range(self.n):
                if self.right_descent(rev, s):
                    break
            else:
                raise OracleError("non-trivial element without left descent")
            if s != word[pos]:
                return False
            # word[pos] is a left descent of cur = word[pos:], so stripping it leaves word[pos+1:]
            cur = word[pos + 1:]
        return True


# ---------------------------------------------------------------------------
def cosine_form(matrix):
    m = normalise(matrix)
    n = len(m)
    return [[1.0 if i == j else (-1.0 if m[i][j] == 0 else -math.cos(math.pi / m[i][j]))
             for j in range(n)] for i in range(n)]


def coxeter_type(matrix):
    """'spherical' (form positive definite), 'affine' (positive semidefinite), else
    'indefinite' - from the eigenvalues of the cosine form"""
    import numpy as np
    ev = np.linalg.eigvalsh(np.array(cosine_form(matrix)))
    if ev[0] > 1e-9:
        return "spherical"
    if ev[0] > -1e-9:
        return "affine"
    return "indefinite"


# orders of the finite irreducible rank-3 groups, for a self-check of the oracles
FINITE_RANK3 = {(2, 3, 3): 24, (2, 3, 4): 48, (2, 3, 5): 120}


def finite_order_rank3(labels):
    """order of the rank-3 group with labels {m01, m02, m12} if it is finite, else None"""
    a, b, c = sorted(x if x > 0 else 10 ** 9 for x in labels)
    if (a, b, c) in FINITE_RANK3:
        return FINITE_RANK3[(a, b, c)]
    if a == 2 and b == 2 and c < 10 ** 9:
        return 4 * c
    return None
