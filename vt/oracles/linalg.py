"""Harness-side linear algebra used by the C16 / C18 laws: span membership by an
SVD rank test, forms of prescribed signature, JSON <-> (complex) arrays.

Nothing here calls geometry_tools."""
import numpy as np


# -- JSON <-> arrays ----------------------------------------------------------
def decode(re, shape, im=None):
    """flat list(s) of floats -> array of the given shape (complex if `im`)."""
    a = np.array(re, dtype=float).reshape(tuple(shape))
    if im is not None:
        a = a + 1j * np.array(im, dtype=float).reshape(tuple(shape))
    return a


def flat(a):
    return [float(x) for x in np.asarray(a, dtype=float).ravel()]


# -- spans ----------------------------------------------------------------------
def row_basis(A, rtol=1e-9):
    """orthonormal basis (rows) of the row space of A and its numerical rank
    (singular values above rtol * largest)."""
    A = np.atleast_2d(np.asarray(A))
    if A.size == 0:
        return np.zeros((0, A.shape[-1])), 0
    u, s, vh = np.linalg.svd(A, full_matrices=False)
    if s.size == 0 or s[0] == 0:
        return np.zeros((0, A.shape[-1])), 0
    r = int(np.sum(s > rtol * s[0]))
    return vh[:r], r


def span_defect(rows, basis_rows, rtol=1e-9):
    """max over the rows r of |r - proj_span(basis) r| / |r| (0 iff all rows lie in
    the row space of basis_rows); rows of norm 0 give nan."""
    rows = np.atleast_2d(np.asarray(rows))
    Q, _ = row_basis(basis_rows, rtol)
    res = rows - (rows @ np.conj(Q.T)) @ Q
    nr = np.sqrt(np.sum(np.abs(rows) ** 2, axis=-1))
    with np.errstate(all="ignore"):
        d = np.sqrt(np.sum(np.abs(res) ** 2, axis=-1)) / nr
    return float(np.max(d)) if d.size else 0.0


def rank(A, rtol=1e-9):
    return row_basis(A, rtol)[1]


def min_rel_sv(A):
    """smallest / largest singular value of A (rows), 0 for a zero matrix"""
    A = np.atleast_2d(np.asarray(A))
    s = np.linalg.svd(A, compute_uv=False)
    if s.size == 0 or s[0] == 0:
        return 0.0
    if A.shape[0] > A.shape[1]:
        return 0.0
    return float(s[-1] / s[0])


def same_span_defect(A, B, rtol=1e-9):
    """max of the two one-sided span defects"""
    return max(span_defect(A, B, rtol), span_defect(B, A, rtol))


# -- forms ----------------------------------------------------------------------
def form_from(Q, lams):
    """Q^T diag(lams) Q"""
    Q = np.asarray(Q, dtype=float)
    return Q.T @ np.diag(np.asarray(lams, dtype=float)) @ Q


def form_frame(Q, lams):
    """rows f_i = q_i / sqrt|lam_i| (q_i = rows of Q): a frame with
    f_i B f_j = sign(lam_i) delta_ij for B = Q^T diag(lams) Q."""
    Q = np.asarray(Q, dtype=float)
    lams = np.asarray(lams, dtype=float)
    return Q / np.sqrt(np.abs(lams))[:, None]


def signature(B):
    w = np.linalg.eigvalsh(np.asarray(B, dtype=float))
    return int(np.sum(w > 0)), int(np.sum(w < 0))


def circ_dist(a, b):
    """distance of angles modulo 2 pi"""
    d = np.mod(np.asarray(a) - np.asarray(b), 2 * np.pi)
    return np.minimum(d, 2 * np.pi - d)


def ccw(a, b):
    """length in [0, 2pi) of the counter-clockwise arc from angle a to angle b"""
    return np.mod(np.asarray(b) - np.asarray(a), 2 * np.pi)
