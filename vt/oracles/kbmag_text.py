"""Grammar-side of the kbmag / GAP record round trip (C09): a renderer from a
JSON *spec* (alphabet, dense transition table with 0 as failure state, initial
state, optional fields, spacing) to record text, the structure a faithful
parse has to return, an independent regex reader for the builtin files, a
tokenizer used to re-space existing files, and the round-trip oracle shared by
the Hypothesis law and the atheris target.

spec = {"records": [rec, ...], "ws": [str, ...], "lead": str, "tail": str}
rec  = {"name": str, "fsa": bool,
        # fsa records
        "names": [str], "quote_names": bool, "table": [[int]], "interval_rows": bool,
        "initial": int, "initial_interval": bool, "extras": [str], "rot": int,
        "strings": [str], "ratio": [int, int]}
        # non-fsa records: "extras", "strings"
Whitespace strings are inserted at every token gap, cyclically; every token
is atomic (identifiers, ':=', 'rec(', quoted strings, '[a..b]' intervals).
"""
import os
import re
import tempfile

from .fsa_model import GraphModel, check_views

WS = " \n\t"       # what the generators draw spacing from; the laws assert that
                   # this is the parser's own whitespace set


# ---------------------------------------------------------------------------
# rendering
def _q(s):
    return '"%s"' % s


def _list_tokens(items):
    toks = ["["]
    for i, it in enumerate(items):
        if i:
            toks.append(",")
        toks.extend(it)
    toks.append("]")
    return toks


def is_run(row):
    return len(row) >= 1 and all(row[i + 1] == row[i] + 1 for i in range(len(row) - 1))


def _row_tokens(row, interval):
    if interval and is_run(row) and row[0] <= row[-1]:
        return ["[%d..%d]" % (row[0], row[-1])]
    return _list_tokens([[str(x)] for x in row])


def _ratio_text(r):
    """a decimal literal exactly representable in binary: p/8 with p < 8 prints
    as .125 style (no leading digit), others with leading digits"""
    whole, eighths = r
    frac = ("%.3f" % (eighths / 8.0))[1:].rstrip("0")
    if frac == ".":
        frac = ".0"
    return ("%d%s" % (whole, frac)) if whole else frac


def _ratio_value(r):
    return r[0] + r[1] / 8.0


def fsa_fields(rec):
    """ordered list of (key, tokens, expected value) of an FSA record"""
    names, table = rec["names"], rec["table"]
    n, m = len(table), len(names)
    ex = set(rec.get("extras", []))
    strings = rec.get("strings", []) or ["DFA"]
    fields = [("isFSA", ["true"], "true")]
    # alphabet
    sub = []
    if "alphabet.type" in ex:
        sub.append(("type", [_q("identifiers")], "identifiers"))
    if "alphabet.size" in ex:
        sub.append(("size", [str(m)], m))
    if "alphabet.format" in ex:
        sub.append(("format", [_q("dense")], "dense"))
    name_toks = [[_q(x)] if rec.get("quote_names") else [x] for x in names]
    sub.append(("names", _list_tokens(name_toks), list(names)))
    fields.append(("alphabet", sub, None))
    if "states" in ex:
        fields.append(("states", [("type", [_q("simple")], "simple"),
                                  ("size", [str(n)], n)], None))
    if "flags" in ex:
        fields.append(("flags", _list_tokens([[_q(s)] for s in strings]), list(strings)))
    k = rec["initial"]
    fields.append(("initial", ["[%d..%d]" % (k, k)] if rec.get("initial_interval")
                   else _list_tokens([[str(k)]]), [k]))
    if "accepting" in ex:
        fields.append(("accepting", ["[1..%d]" % n], list(range(1, n + 1))))
    if "ratio" in ex:
        r = rec.get("ratio", [0, 4])
        fields.append(("ratio", [_ratio_text(r)], _ratio_value(r)))
    if "word" in ex:
        # bare (unquoted) literal beginning with the letter r: must not be taken for rec(
        fields.append(("kind", ["reduced"], "reduced"))
    tsub = []
    if "table.format" in ex:
        tsub.append(("format", [_q("dense deterministic")], "dense deterministic"))
    if "table.numTransitions" in ex:
        cnt = sum(1 for row in table for x in row if x)
        tsub.append(("numTransitions", [str(cnt)], cnt))
    rows = [_row_tokens(row, rec.get("interval_rows")) for row in table]
    tsub.append(("transitions", _list_tokens(rows), [list(r) for r in table]))
    fields.append(("table", tsub, None))
    return _rotate(fields, rec.get("rot", 0))


def _rotate(fields, rot):
    """field order: rotation of everything after isFSA (isFSA stays first, as
    in every kbmag file); sub-records are rotated as well"""
    out = []
    for (k, toks, val) in fields:
        if val is None and toks and isinstance(toks[0], tuple):
            r = rot % len(toks)
            toks = toks[r:] + toks[:r]
        out.append((k, toks, val))
    head, rest = out[:1], out[1:]
    if rest:
        r = rot % len(rest)
        rest = rest[r:] + rest[:r]
    return head + rest


def other_fields(rec):
    ex = set(rec.get("extras", []))
    strings = rec.get("strings", []) or ["x"]
    fields = [("isFSA", ["false"], "false")]
    if "flags" in ex:
        fields.append(("flags", _list_tokens([[_q(s)] for s in strings]), list(strings)))
    if "states" in ex:
        fields.append(("ordering", [_q("shortlex")], "shortlex"))
    if "accepting" in ex:
        fields.append(("generatorOrder", _list_tokens([[x] for x in ["a", "A", "b"]]),
                       ["a", "A", "b"]))
    if "ratio" in ex:
        r = rec.get("ratio", [0, 4])
        fields.append(("ratio", [_ratio_text(r)], _ratio_value(r)))
    return fields


def _fields_tokens(fields):
    toks = []
    for i, (k, sub, val) in enumerate(fields):
        if i:
            toks.append(",")
        toks.extend([k, ":="])
        if val is None and sub and isinstance(sub[0], tuple):
            toks.append("rec(")
            toks.extend(_fields_tokens(sub))
            toks.append(")")
        else:
            toks.extend(sub)
    return toks


def _fields_expected(fields):
    d = {}
    for (k, sub, val) in fields:
        if val is None and sub and isinstance(sub[0], tuple):
            d[k] = _fields_expected(sub)
        else:
            d[k] = val
    return d


def record_fields(rec):
    return fsa_fields(rec) if rec.get("fsa") else other_fields(rec)


def tokens(spec):
    toks = []
    for rec in spec["records"]:
        toks.extend([rec["name"], ":=", "rec("])
        toks.extend(_fields_tokens(record_fields(rec)))
        toks.extend([")", ";"])
    return toks


def join_tokens(toks, ws, lead="", tail=""):
    ws = list(ws) or [""]
    out = [lead]
    for i, t in enumerate(toks):
        if i:
            out.append(ws[(i - 1) % len(ws)])
        out.append(t)
    out.append(tail)
    return "".join(out)


def render(spec):
    return join_tokens(tokens(spec), spec.get("ws", [" "]), spec.get("lead", ""),
                       spec.get("tail", ""))


def expected(spec):
    return [_fields_expected(record_fields(rec)) for rec in spec["records"]]


def normalize(x):
    """parsed value with ranges turned into lists"""
    if isinstance(x, range):
        return list(x)
    if isinstance(x, dict):
        return {k: normalize(v) for k, v in x.items()}
    if isinstance(x, (list, tuple)):
        return [normalize(v) for v in x]
    return x


def table_model(names, table, initial):
    """harness reading of a dense table: state i+1, column j -> names[j],
    entry 0 = no transition"""
    m = GraphModel(start=[initial])
    m.add_vertices(list(range(1, len(table) + 1)))
    for i, row in enumerate(table):
        for lab, tgt in zip(names, row):
            if tgt != 0:
                m.edges.add((i + 1, tgt, lab))
    return m


# ---------------------------------------------------------------------------
# independent reader and tokenizer for existing files
_TOKEN = re.compile(r'"[^"]*"|\[-?\d+\.\.-?\d+\]|rec\(|:=|[\[\],();]|[^\s\[\],();:"]+')


def tokenize(text):
    """atomic tokens of a kbmag file (quoted strings, intervals, rec(, :=,
    punctuation, bare words); whitespace dropped"""
    toks = _TOKEN.findall(text)
    strip = lambda s: re.sub(r"\s+", "", s)
    if strip("".join(toks)) != strip(text):
        raise ValueError("tokenizer lost characters")
    return toks


def regex_read(text):
    """(names, table, initial) of the first FSA record of a canonical kbmag
    file, by regular expressions only"""
    flat = re.sub(r"\s+", "", text)
    names = re.search(r"names:=\[([^\]]*)\]", flat).group(1).split(",")
    names = [x.strip('"') for x in names if x != ""]
    init = re.search(r"initial:=\[(\d+)(?:\.\.\d+)?\]", flat).group(1)
    body = re.search(r"transitions:=\[(.*?)\]\)", flat).group(1)
    rows = []
    for r in re.findall(r"\[([^\[\]]*)\]", body):
        iv = re.fullmatch(r"(\d+)\.\.(\d+)", r)
        if iv:
            rows.append(list(range(int(iv.group(1)), int(iv.group(2)) + 1)))
        else:
            rows.append([int(x) for x in r.split(",") if x != ""])
    return names, rows, int(init)


# ---------------------------------------------------------------------------
# the oracle
def first_fsa(spec):
    for j, rec in enumerate(spec["records"]):
        if rec.get("fsa"):
            return j
    return None


def check_roundtrip(spec, ctx, file_io=True):
    """parse_record(render(spec)) reproduces every record of the spec;
    _from_gap_record / load_kbmag_file build exactly the automaton of the
    first FSA record"""
    from geometry_tools.automata import gap_parse, fsa
    text = render(spec)
    parsed, _ = gap_parse.parse_record(text)
    want = expected(spec)
    vals = list(parsed.values())
    ctx.check(len(vals) == len(want), "number of top-level records", got=len(vals),
              want=len(want), keys=list(parsed.keys()), text=text)
    ctx.check(list(parsed.keys())[0] == spec["records"][0]["name"],
              "name of the first record", got=list(parsed.keys())[0],
              want=spec["records"][0]["name"], text=text)
    for j, (g, w) in enumerate(zip(vals, want)):
        g = normalize(g)
        if g != w:
            bad = sorted(k for k in set(w) | set(g if isinstance(g, dict) else {})
                         if not isinstance(g, dict) or g.get(k, None) != w.get(k, None))
            ctx.fail("parsed record differs from the text", record=j, fields=bad,
                     got={k: g.get(k) for k in bad} if isinstance(g, dict) else repr(g),
                     want={k: w.get(k) for k in bad}, text=text)
        ctx.check(True, "record ok")
    j = first_fsa(spec)
    if j is None:
        return text
    rec = spec["records"][j]
    model = table_model(rec["names"], rec["table"], rec["initial"])
    A = fsa._from_gap_record(parsed)
    ctx.check(isinstance(A, fsa.FSA), "_from_gap_record returns the automaton of the first "
              "FSA record", got=repr(A), text=text)
    ctx.check({v: dict(nb) for v, nb in A.graph_dict.items()} == model.graph_dict(),
              "transition table of the loaded automaton differs from the text",
              got=A.graph_dict, want=model.graph_dict(), text=text)
    ctx.check(list(A.start_vertices) == [rec["initial"]], "start state differs from the text",
              got=list(A.start_vertices), want=[rec["initial"]], text=text)
    A.start_vertices = list(A.start_vertices)
    check_views(A, model, ctx, where="kbmag record")
    if file_io:
        fd, path = tempfile.mkstemp(prefix="vt_kbmag_", suffix=".wa",
                                    dir=os.environ.get("TMPDIR") or None)
        try:
            with os.fdopen(fd, "w", newline="") as f:
                f.write(text)
            B = fsa.load_kbmag_file(path)
        finally:
            os.unlink(path)
        ctx.check({v: dict(nb) for v, nb in B.graph_dict.items()} == model.graph_dict()
                  and list(B.start_vertices) == [rec["initial"]],
                  "load_kbmag_file differs from the text", got=B.graph_dict,
                  want=model.graph_dict(), text=text)
        if "\n" in text:
            # the same record saved with CRLF line ends (a file that went through Windows):
            # still the text's table, a line end being a line end
            ctx.label("crlf-file")
            fd, path = tempfile.mkstemp(prefix="vt_kbmag_", suffix=".wa",
                                        dir=os.environ.get("TMPDIR") or None)
            try:
                with os.fdopen(fd, "w", newline="") as f:
                    f.write(text.replace("\n", "\r\n"))
                B = fsa.load_kbmag_file(path)
            finally:
                os.unlink(path)
            ctx.check({v: dict(nb) for v, nb in B.graph_dict.items()} == model.graph_dict()
                      and list(B.start_vertices) == [rec["initial"]],
                      "load_kbmag_file of the CRLF copy differs from the text",
                      got=B.graph_dict, want=model.graph_dict(), text=text)
    return text


def check_respaced(original, ws, ctx, lead="", tail=""):
    """re-spacing an existing kbmag file at token boundaries does not change
    what is parsed, and the table agrees with the regex reader"""
    from geometry_tools.automata import gap_parse, fsa
    toks = tokenize(original)
    text = join_tokens(toks, ws, lead, tail)
    ref = normalize(gap_parse.parse_record(original)[0])
    got = normalize(gap_parse.parse_record(text)[0])
    ctx.check(list(got.values()) == list(ref.values()),
              "re-spaced file parses differently", text=text[:600])
    names, rows, init = regex_read(original)
    model = table_model(names, rows, init)
    A = fsa._from_gap_record(gap_parse.parse_record(text)[0])
    ctx.check({v: dict(nb) for v, nb in A.graph_dict.items()} == model.graph_dict(),
              "automaton of the re-spaced file differs from the regex reading",
              text=text[:600])
    ctx.check(list(A.start_vertices) == [init], "start state of the re-spaced file",
              got=list(A.start_vertices), want=[init])
    return model, A
