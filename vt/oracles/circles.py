"""Independent closed forms for circles/spheres that represent hyperbolic geodesics and
horospheres in the two conformal models, and for arcs of circles.

Nothing here calls geometry_tools.  Conventions as in oracles/hyp.py: Poincare ball =
unit ball of R^n; half-space = R^(n-1) x (0,inf) with the height as LAST coordinate.

* the Poincare geodesic through p, q is the circle through p, q that meets the unit
  sphere at right angles: its centre c satisfies |c|^2 = r^2 + 1, hence
  c.p = (1+|p|^2)/2 and c.q = (1+|q|^2)/2 with c in span(p, q) (a 2x2 Gram system;
  an ideal point has |p| = 1 and the equation reads c.p = 1);
* the half-space geodesic through p, q is the circle centred on the boundary, in the
  vertical 2-plane through p and q: c = (b_p + t (b_q - b_p), 0) with |p-c| = |q-c|.
"""
import math
import numpy as np


# ---------------------------------------------------------------------------
# geodesic circles
def orth_circle_poincare(p, q):
    """(centre, radius) of the circle through p, q (points of the closed unit ball of
    R^n, given as 1-d arrays) orthogonal to the unit sphere.  Returns (None, inf) when
    p, q and the origin are collinear (the geodesic is a diameter)."""
    p = np.asarray(p, dtype=float)
    q = np.asarray(q, dtype=float)
    G = np.array([[p @ p, p @ q], [p @ q, q @ q]])
    rhs = np.array([(1.0 + p @ p) / 2.0, (1.0 + q @ q) / 2.0])
    det = G[0, 0] * G[1, 1] - G[0, 1] * G[1, 0]
    if not det > 0.0:
        return None, math.inf
    a = (rhs[0] * G[1, 1] - rhs[1] * G[0, 1]) / det
    b = (rhs[1] * G[0, 0] - rhs[0] * G[0, 1]) / det
    c = a * p + b * q
    r = math.sqrt(max(c @ c - 1.0, 0.0))
    return c, r


def orth_circle_halfspace(p, q):
    """(centre, radius) of the half-circle through p, q (height last, >= 0) centred on
    the boundary.  Returns (None, inf) for a vertical line (equal base points)."""
    p = np.asarray(p, dtype=float)
    q = np.asarray(q, dtype=float)
    bp, bq = p[:-1], q[:-1]
    d = bq - bp
    dd = d @ d
    if not dd > 0.0:
        return None, math.inf
    # |bp + t d - bp|^2 + hp^2 = |bp + t d - bq|^2 + hq^2
    t = (dd + q[-1] ** 2 - p[-1] ** 2) / (2.0 * dd)
    c = np.concatenate([bp + t * d, [0.0]])
    r = math.sqrt((t * t) * dd + p[-1] ** 2)
    return c, r


def klein_line_offset(p, q):
    """Euclidean distance from the origin to the line through the Klein points p, q."""
    p = np.asarray(p, dtype=float)
    q = np.asarray(q, dtype=float)
    d = q - p
    dd = d @ d
    if dd == 0.0:
        return float(np.sqrt(p @ p))
    t = -(p @ d) / dd
    f = p + t * d
    return float(np.sqrt(f @ f))


# ---------------------------------------------------------------------------
# angles and arcs
def ang_diff(a, b):
    """|a-b| on the circle R/2pi, in [0, pi]."""
    d = (a - b) % (2.0 * math.pi)
    return min(d, 2.0 * math.pi - d)


def angle_of(c, x):
    x = np.asarray(x, dtype=float)
    c = np.asarray(c, dtype=float)
    return math.atan2(x[1] - c[1], x[0] - c[0])


def pair_as_set_defect(got, want):
    """circular distance between two unordered pairs of angles (max over the better of
    the two matchings of the circular differences)."""
    d_id = max(ang_diff(got[0], want[0]), ang_diff(got[1], want[1]))
    d_sw = max(ang_diff(got[0], want[1]), ang_diff(got[1], want[0]))
    return min(d_id, d_sw)


def ccw_sweep(th0, th1):
    """length in [0, 2pi) of the counter-clockwise arc from th0 to th1."""
    return (th1 - th0) % (2.0 * math.pi)


def arc_points(c, r, th0, th1, ts):
    """points c + r e^{i theta} for theta = th0 + t*sweep, t in ts (2-d only)."""
    c = np.asarray(c, dtype=float)
    sw = ccw_sweep(th0, th1)
    th = th0 + np.asarray(ts, dtype=float) * sw
    return np.stack([c[0] + r * np.cos(th), c[1] + r * np.sin(th)], axis=-1)


def on_ccw_arc(theta, th0, th1, slack=0.0):
    """is theta on the closed counter-clockwise arc from th0 to th1 (enlarged by slack)?"""
    sw = ccw_sweep(th0, th1)
    d = (theta - th0) % (2.0 * math.pi)
    return d <= sw + slack or d >= 2.0 * math.pi - slack


def segment_param(p, q, x):
    """x = p + s (q-p) + residual: returns (s, |residual|) for Klein points."""
    p = np.asarray(p, dtype=float)
    q = np.asarray(q, dtype=float)
    x = np.asarray(x, dtype=float)
    d = q - p
    s = ((x - p) @ d) / (d @ d)
    res = x - p - s * d
    return float(s), float(np.sqrt(res @ res))


# ---------------------------------------------------------------------------
# horospheres
def horosphere_poincare(u, x):
    """sphere tangent to the unit sphere at the unit vector u through the interior
    Poincare point x: centre (1-rho) u, radius rho = |u-x|^2 / (2 (1 - u.x))."""
    u = np.asarray(u, dtype=float)
    x = np.asarray(x, dtype=float)
    rho = ((u - x) @ (u - x)) / (2.0 * (1.0 - u @ x))
    return (1.0 - rho) * u, rho


def horosphere_halfspace(a, x):
    """sphere tangent to the boundary at (a, 0) through x (height last): centre
    (a, rho), rho = (|a - b_x|^2 + h^2) / (2 h)."""
    a = np.asarray(a, dtype=float)
    x = np.asarray(x, dtype=float)
    d = a - x[:-1]
    rho = (d @ d + x[-1] ** 2) / (2.0 * x[-1])
    return np.concatenate([a, [rho]]), rho
