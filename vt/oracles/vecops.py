"""Table of the library's vectorised operations for C04.

Every entry knows how to draw the JSON input of ONE unit (plus parameters shared by the
whole composite) and how to run the operation on a list of such units arranged in a
composite shape.  The generic law body runs the operation once on the composite and once
per unit (shape ()) and compares index by index, so each operation is written down once.

run(params, units, shape, ctx) -> list of (name, value, mode)
  mode: "close"   numeric arrays, same arithmetic expected (rtol 1e-9)
        "dist"    hyperbolic distances (arccosh amplifies one rounding near 0)
        "proj"    rows are projective points (compared up to a scalar per row)
        "matproj" whole trailing matrix up to one scalar
        "deg"/"rad" angles compared on the circle
        "subspace" row spaces of the trailing (k, m) blocks
        "tangent" (.., 2, N) tangent-vector data: rows projectively + relative sign
  `ctx` is None for the per-unit runs; when given, cheap absolute checks are made too."""
import math
import numpy as np
from hypothesis import strategies as st

from .. import gen
from ..gen import fl
from ..num import mink, proj_dist
from . import hyp as HY
from . import objs

from geometry_tools import projective as P
from geometry_tools import hyperbolic as H
from geometry_tools import lie, utils

MODELS = ["projective", "hyperboloid", "klein", "poincare", "halfspace"]


def _arr(units, shape, key=None):
    rows = [np.array(u if key is None else u[key], dtype=float) for u in units]
    a = np.array(rows)
    return a.reshape(tuple(shape) + a.shape[1:])


def _jform(N):
    J = np.eye(N)
    J[0, 0] = -1.0
    return J


# --------------------------------------------------------------------------- helpers for inputs
@st.composite
def s_angle_away_from_zero(draw, margin=0.4):
    return draw(fl(margin, 2 * math.pi - margin))


@st.composite
def s_geodesic_angles(draw, margin=0.4):
    """two ideal points of H^2 given by angles: both at angular distance >= margin from
    angle 0 (the half-space point at infinity), separated by an angle in
    [margin, pi - margin] (no diameter, no degenerate chord)"""
    t1 = draw(s_angle_away_from_zero(margin))
    d = draw(fl(margin, math.pi - margin)) * draw(st.sampled_from([1.0, -1.0]))
    t2 = t1 + d

    def bad(t):
        t = t % (2 * math.pi)
        return t < margin * 0.75 or t > 2 * math.pi - margin * 0.75
    if bad(t2):
        t2 = t1 - d
    return [t1, t2]


def _ideal2(t):
    return np.array([1.0, math.cos(t), math.sin(t)])


@st.composite
def s_directions_general(draw, n, k):
    """k unit vectors of R^n (k <= n) in general position by construction: rows of an
    orthogonal matrix plus a perturbation of size <= 0.3 (smallest singular value of the
    family >= 0.4); if one of them comes within 0.3 of e_1 (the half-space point at
    infinity) the whole family is reflected in the first coordinate"""
    Q = np.array(draw(gen.orthogonal_matrix(n)))
    out = []
    for i in range(k):
        w = np.array([draw(fl(-1.0, 1.0)) for _ in range(n)])
        nw = np.linalg.norm(w)
        if nw > 1.0:
            w = w / nw
        v = Q[i] + 0.3 * w
        out.append(v / np.linalg.norm(v))
    e1 = np.zeros(n)
    e1[0] = 1.0
    if any(np.linalg.norm(v - e1) < 0.3 for v in out):
        out = [v * np.array([-1.0] + [1.0] * (n - 1)) for v in out]
    return [v.tolist() for v in out]


def _null_rows(dirs, scales=None):
    rows = []
    for i, d in enumerate(dirs):
        s = 1.0 if scales is None else scales[i]
        rows.append([s] + [s * x for x in d])
    return rows


# --------------------------------------------------------------------------- the operations
class Op:
    name = ""

    def params(self, draw):
        return {}

    def unit(self, draw, params):
        raise NotImplementedError

    def run(self, params, units, shape, ctx=None):
        raise NotImplementedError


class Coords(Op):
    name = "coords"

    def params(self, draw):
        return dict(n=draw(st.integers(1, 4)), src=draw(st.sampled_from(MODELS)))

    def unit(self, draw, params):
        if draw(st.integers(0, 4)) == 0:
            # a point a few thousandths from the origin: its hyperboloid representative has
            # time coordinate 1 + O(1e-5)
            d = draw(gen.directions(params["n"]))
            r = draw(st.sampled_from([3e-3, 1e-3, 4e-3]))
            return [r * x for x in d]
        return draw(gen.klein_point(params["n"], rmax=0.95))

    def run(self, params, units, shape, ctx=None):
        K = _arr(units, shape)
        X = HY.klein_to_model(K, params["src"])
        Pt = H.Point(X.copy(), model=params["src"])
        out = [("shape", tuple(Pt.shape), "shape")]
        for tgt in MODELS:
            c = np.array(Pt.coords(tgt))
            out.append(("coords(%s)" % tgt, c, "proj" if tgt == "projective" else "close"))
        if ctx is not None:
            ctx.close("klein coordinates vs generating coordinates", Pt.coords("klein"), K,
                      rtol=1e-9, atol=1e-10)
        return out


class AffineCoords(Op):
    name = "affine_coords"

    def params(self, draw):
        n = draw(st.integers(1, 4))
        return dict(n=n, chart=draw(st.integers(0, n)))

    def unit(self, draw, params):
        v = draw(objs.s_vec(params["n"] + 1))
        # the chart coordinate: generic, or within 1e-5 of 1 without being 1 (what a
        # normalised representative of a point near the chart origin looks like), or exactly 1
        v[params["chart"]] = draw(st.one_of(
            gen.scalars_pm(0.5, 2.0), gen.scalars_pm(0.5, 2.0),
            st.sampled_from([1.0 + 4.5e-6, 1.0 - 7e-6, 1.0, 1.0 + 2e-6, -1.0 - 4.5e-6])))
        return v

    def run(self, params, units, shape, ctx=None):
        V = _arr(units, shape)
        Pt = P.Point(V.copy())
        c = params["chart"]
        aff = np.array(Pt.affine_coords(chart_index=c))
        back = P.Point(aff.copy(), chart_index=c)
        if ctx is not None:
            ctx.close("affine coordinates", aff, np.delete(V / V[..., c:c + 1], c, axis=-1),
                      rtol=1e-12, atol=1e-12)
        return [("shape", tuple(Pt.shape), "shape"), ("affine", aff, "close"),
                ("rebuilt", np.array(back.proj_data), "proj")]


class Distance(Op):
    name = "distance"

    def params(self, draw):
        return dict(n=draw(st.integers(1, 4)), same=draw(st.integers(0, 5)) == 0)

    def unit(self, draw, params):
        rows = draw(objs.s_segment_rows(params["n"], dmin=0.05, dmax=3.0))
        if params["same"] and draw(st.booleans()):
            s = draw(gen.scalars_pm(0.5, 2.0))
            rows[1] = [s * x for x in rows[0]]
        return rows

    def run(self, params, units, shape, ctx=None):
        R = _arr(units, shape)
        A = H.Point(R[..., 0, :].copy())
        B = H.Point(R[..., 1, :].copy())
        d = np.array(A.distance(B))
        if ctx is not None:
            want = HY.dist_projective(R[..., 0, :], R[..., 1, :])
            ctx.close("distance vs closed form", d, want, rtol=1e-7, atol=1e-6)
        return [("distance", d, "dist"), ("distance reversed", np.array(B.distance(A)), "dist")]


class OriginTo(Op):
    name = "origin_to"

    def params(self, draw):
        return dict(n=draw(st.integers(1, 4)), oriented=draw(st.booleans()))

    def unit(self, draw, params):
        return draw(objs.s_timelike(params["n"]))

    def run(self, params, units, shape, ctx=None):
        R = _arr(units, shape)
        n = params["n"]
        Pt = H.Point(R.copy())
        iso = Pt.origin_to(force_oriented=params["oriented"])
        M = np.array(iso.matrix)
        img = iso @ H.Point.get_origin(n)
        if ctx is not None:
            ctx.check(type(iso) is H.Isometry, "origin_to returns an Isometry")
            J = _jform(n + 1)
            ctx.close("origin_to preserves the form", M @ J @ np.swapaxes(M, -1, -2),
                      np.broadcast_to(J, M.shape), rtol=0, atol=1e-8)
            ctx.small("origin_to takes the origin to the point",
                      proj_dist(np.array(img.proj_data), R), 1e-9)
            if params["oriented"]:
                ctx.check(np.all(np.linalg.det(M) > 0), "force_oriented gives det > 0")
        # only the image of the origin is determined; the completion of the frame is not
        return [("shape", tuple(iso.shape), "shape"), ("image of origin", M[..., 0, :], "proj"),
                ("iso@origin", np.array(img.proj_data), "proj")]


class TvOriginTo(Op):
    name = "tv_origin_to"

    def params(self, draw):
        return dict(n=draw(st.integers(1, 4)), oriented=draw(st.booleans()))

    def unit(self, draw, params):
        return draw(objs.s_tangent_rows(params["n"]))

    def run(self, params, units, shape, ctx=None):
        R = _arr(units, shape)
        n = params["n"]
        tv = H.TangentVector(R.copy())
        iso = tv.origin_to(force_oriented=params["oriented"])
        M = np.array(iso.matrix)
        if ctx is not None:
            J = _jform(n + 1)
            ctx.close("tangent origin_to preserves the form",
                      M @ J @ np.swapaxes(M, -1, -2), np.broadcast_to(J, M.shape), rtol=0,
                      atol=1e-8)
            ctx.small("row 0 is the base point", proj_dist(M[..., 0, :], R[..., 0, :]), 1e-9)
        out = [("shape", tuple(iso.shape), "shape"), ("frame rows 0,1", M[..., :2, :], "tangent")]
        if n == 1 or (n == 2 and params["oriented"]):
            # the frame is then completely determined
            out.append(("whole matrix", M, "close"))
        return out


class UnitTangent(Op):
    name = "unit_tangent"

    def params(self, draw):
        return dict(n=draw(st.integers(1, 4)))

    def unit(self, draw, params):
        return draw(objs.s_segment_rows(params["n"]))

    def run(self, params, units, shape, ctx=None):
        R = _arr(units, shape)
        A = H.Point(R[..., 0, :].copy())
        B = H.Point(R[..., 1, :].copy())
        tv = A.unit_tangent_towards(B)
        aux = np.array(tv.aux_data)
        if ctx is not None:
            ctx.check(type(tv) is H.TangentVector, "unit_tangent_towards returns a TangentVector")
            p, v = aux[..., 0, :], aux[..., 1, :]
            ctx.close("unit length", mink(v, v), np.ones(shape), rtol=0, atol=1e-9)
            # pointing towards the other point: <v, q> has the sign of -<p, q>... written
            # with representatives on one sheet
            q = R[..., 1, :] * np.sign(-mink(p, R[..., 1, :]))[..., None]
            ctx.check(np.all(mink(v, q) > 0), "tangent points towards the other point")
        return [("shape", tuple(tv.shape), "shape"),
                ("proj_data", np.array(tv.proj_data), "tangent"), ("aux_data", aux, "tangent")]


class PointAlong(Op):
    name = "point_along"

    def params(self, draw):
        return dict(n=draw(st.integers(1, 4)), scalar=draw(st.booleans()),
                    d=draw(fl(-2.0, 2.0)))

    def unit(self, draw, params):
        return dict(tv=draw(objs.s_tangent_rows(params["n"])),
                    d=params["d"] if params["scalar"] else
                    draw(st.one_of(fl(-2.0, 2.0), st.sampled_from([0.0, 1.0]))))

    def run(self, params, units, shape, ctx=None):
        R = _arr(units, shape, "tv")
        d = np.array([u["d"] for u in units], dtype=float).reshape(shape)
        tv = H.TangentVector(R.copy())
        arg = float(params["d"]) if params["scalar"] else d.copy()
        if not params["scalar"] and shape == ():
            arg = float(d)
        Q = tv.point_along(arg)
        if ctx is not None:
            ctx.check(type(Q) is H.Point, "point_along returns a Point")
        # in H^1 point_along calls origin_to(force_oriented=True), which cannot also respect
        # the direction of the vector (no property claims dimension 1: C13 is 2..5)
        if ctx is not None and params["n"] >= 2:
            p = R[..., 0, :]
            v = R[..., 1, :]
            phat = p / np.sqrt(-mink(p, p))[..., None]
            w = v + mink(v, phat)[..., None] * phat
            what = w / np.sqrt(mink(w, w))[..., None]
            want = np.cosh(d)[..., None] * phat + np.sinh(d)[..., None] * what
            ctx.small("point_along vs cosh d p + sinh d v",
                      proj_dist(np.array(Q.proj_data), want), 1e-9)
            if len(shape) >= 2:
                # distances that broadcast against the composite shape the NumPy way: one per
                # index of the last axis, or one per index of the first (shape (a, 1, ..))
                lead = (slice(None),) + (0,) * (len(shape) - 1)
                for tag, dv in (("last axis", d[(0,) * (len(shape) - 1)]),
                                ("first axis", d[lead].reshape((shape[0],) + (1,) *
                                                               (len(shape) - 1)))):
                    db = np.broadcast_to(dv, shape)
                    Qb = H.TangentVector(R.copy()).point_along(dv.copy())
                    ctx.check(tuple(Qb.shape) == tuple(shape), "point_along with distances "
                              "along the %s: shape" % tag, got=Qb.shape, want=shape)
                    wb = np.cosh(db)[..., None] * phat + np.sinh(db)[..., None] * what
                    ctx.small("point_along with one distance per index of the %s" % tag,
                              proj_dist(np.array(Qb.proj_data), wb), 1e-9)
        return [("shape", tuple(Q.shape), "shape"), ("point", np.array(Q.proj_data), "proj")]


class SegmentCtor(Op):
    name = "segment"

    def params(self, draw):
        return dict(n=draw(st.integers(1, 4)), ctor=draw(st.integers(0, 2)))

    def unit(self, draw, params):
        return draw(objs.s_segment_rows(params["n"]))

    def run(self, params, units, shape, ctx=None):
        R = _arr(units, shape)
        a, b = R[..., 0, :].copy(), R[..., 1, :].copy()
        if params["ctor"] == 0:
            S = H.Segment(R.copy())
        elif params["ctor"] == 1:
            S = H.Segment(H.Point(a), H.Point(b))
        else:
            S = H.Segment(a, b)
        ideal = np.array(S.aux_data)
        if ctx is not None:
            ctx.small("ideal endpoints are lightlike",
                      mink(ideal, ideal) / np.sum(ideal * ideal, axis=-1), 1e-8)
        return [("shape", tuple(S.shape), "shape"), ("endpoints", np.array(S.proj_data), "proj"),
                ("ideal endpoints", ideal, "proj"),
                ("geodesic", np.array(S.geodesic().proj_data), "proj"),
                ("endpoint klein coords", np.array(S.endpoint_coords("klein")), "close")]


@st.composite
def s_polygon_rows(draw, n, k, hyp):
    rows = []
    for i in range(k):
        if hyp:
            d = draw(gen.directions(n))
            r = 0.1 + 0.15 * i + draw(fl(0.0, 0.05))     # distinct radii: distinct vertices
            s = draw(gen.scalars_pm(0.5, 2.0))
            rows.append([s] + [s * r * x for x in d])
        else:
            rows.append(draw(objs.s_vec(n + 1)))
    return rows


class PolygonEdges(Op):
    name = "polygon_edges"

    def params(self, draw):
        return dict(n=draw(st.integers(1, 4)), k=draw(st.integers(3, 5)),
                    hyp=draw(st.booleans()), from_points=draw(st.booleans()))

    def unit(self, draw, params):
        return draw(s_polygon_rows(params["n"], params["k"], params["hyp"]))

    def run(self, params, units, shape, ctx=None):
        V = _arr(units, shape)
        k = params["k"]
        mod = H if params["hyp"] else P
        if params["from_points"]:
            poly = mod.Polygon(mod.Point(V.copy()))
        else:
            poly = mod.Polygon(V.copy())
        E = poly.get_edges()
        W = poly.get_vertices()
        out = [("shape", tuple(poly.shape), "shape"),
               ("edges shape", tuple(E.shape), "shape"),
               ("vertices shape", tuple(W.shape), "shape"),
               ("edges", np.array(E.proj_data), "proj"),
               ("vertices", np.array(W.proj_data), "proj")]
        if params["hyp"]:
            out.append(("edge ideal endpoints", np.array(E.aux_data), "proj"))
        if ctx is not None:
            ctx.check(type(E) is (H.Segment if params["hyp"] else P.PointPair), "edge class",
                      got=type(E).__name__)
            ctx.check(tuple(E.shape) == tuple(shape) + (k,), "edges composite shape",
                      got=E.shape, want=tuple(shape) + (k,))
            ed = np.array(E.proj_data)
            ctx.small("edge i starts at vertex i", proj_dist(ed[..., 0, :], V), 1e-12)
            ctx.small("edge i ends at vertex i+1",
                      proj_dist(ed[..., 1, :], np.roll(V, -1, axis=-2)), 1e-12)
        return out


class CircleParameters(Op):
    name = "circle_parameters"

    def params(self, draw):
        return dict(kind=draw(st.sampled_from(["geodesic", "segment"])),
                    model=draw(st.sampled_from(["poincare", "halfspace"])),
                    degrees=draw(st.booleans()))

    def unit(self, draw, params):
        t = draw(s_geodesic_angles())
        u1 = draw(fl(-1.5, 1.5))
        u2 = u1 + draw(fl(0.3, 1.5)) * draw(st.sampled_from([1.0, -1.0]))
        return dict(t=t, u=[u1, u2], s=[draw(gen.scalars_pm(0.5, 2.0)) for _ in range(2)])

    @staticmethod
    def rows(params, u):
        a, b = _ideal2(u["t"][0]), _ideal2(u["t"][1])
        if params["kind"] == "geodesic":
            return [(u["s"][0] * a).tolist(), (u["s"][1] * b).tolist()]
        rows = []
        for x, s in zip(u["u"], u["s"]):
            p = math.exp(x) * a + math.exp(-x) * b       # timelike: a point of the geodesic
            p = p / math.sqrt(-mink(p, p))
            rows.append((abs(u["s"][0]) * math.copysign(1.0, s) * p).tolist())
        return rows

    def run(self, params, units, shape, ctx=None):
        R = np.array([self.rows(params, u) for u in units]).reshape(tuple(shape) + (2, 3))
        obj = H.Geodesic(R.copy()) if params["kind"] == "geodesic" else H.Segment(R.copy())
        c, r, th = obj.circle_parameters(degrees=params["degrees"], model=params["model"])
        c, r, th = np.array(c), np.array(r), np.array(th)
        if ctx is not None:
            # the ideal endpoints of the generating geodesic lie on the circle
            T = np.array([u["t"] for u in units]).reshape(tuple(shape) + (2,))
            ends = np.stack([np.cos(T), np.sin(T)], axis=-1)          # (.., 2, 2) Poincare
            if params["model"] == "halfspace":
                ends = HY.poincare_to_halfspace(ends)
            dist = np.sqrt(np.sum((ends - c[..., None, :]) ** 2, axis=-1))
            ctx.close("circle passes through the ideal endpoints", dist,
                      np.broadcast_to(r[..., None], dist.shape), rtol=1e-5, atol=1e-5)
        return [("centre", c, "close"), ("radius", r, "close"),
                ("thetas", th, "deg" if params["degrees"] else "rad")]


class SphereParameters(Op):
    name = "sphere_parameters"
    KINDS = ["subspace", "geodesic", "segment", "hyperplane", "horosphere"]

    def params(self, draw):
        n = draw(st.sampled_from([2, 3, 3, 4, 4]))
        kind = draw(objs.s_pick(self.KINDS))
        # subspaces of dimension >= 2 (k >= 3 ideal points) as often as geodesics
        k = draw(st.sampled_from(list(range(2, n + 1)) + [n])) if kind == "subspace" else 2
        return dict(n=n, kind=kind, k=k, model=draw(st.sampled_from(["poincare", "halfspace"])))

    def unit(self, draw, params):
        n, kind = params["n"], params["kind"]
        if kind in ("subspace", "geodesic", "segment"):
            dirs = draw(s_directions_general(n, params["k"]))
            u = dict(dirs=dirs, s=[draw(gen.scalars_pm(0.5, 2.0)) for _ in dirs])
            if kind == "segment":
                x1 = draw(fl(-1.0, 1.0))
                u["u"] = [x1, x1 + draw(fl(0.3, 1.5)) * draw(st.sampled_from([1.0, -1.0]))]
            return u
        if kind == "hyperplane":
            d = draw(gen.directions(n))
            t = draw(fl(-0.9, 0.9))

            def ok(x):
                # not through the origin (Poincare centre at infinity), not through the
                # half-space point at infinity (1,1,0,..), spacelike with a margin
                return 0.15 <= abs(x) <= 0.9 and abs(d[0] - x) >= 0.2
            if not ok(t):
                t = [x for x in (t + 0.4, t - 0.4, 0.5, -0.5) if ok(x)][0]
            s = draw(gen.scalars_pm(0.5, 2.0))
            return dict(normal=[s * t] + [s * x for x in d])
        # horosphere: ideal centre away from the half-space point at infinity, any reference
        c = draw(s_directions_general(n, 1))[0]
        return dict(centre=[1.0] + c, ref=draw(objs.s_timelike(n)),
                    s=draw(gen.scalars_pm(0.5, 2.0)))

    def build(self, params, units, shape):
        n, kind = params["n"], params["kind"]
        N = n + 1
        if kind in ("subspace", "geodesic"):
            R = np.array([_null_rows(u["dirs"], u["s"]) for u in units])
            R = R.reshape(tuple(shape) + R.shape[1:])
            return (H.Subspace if kind == "subspace" else H.Geodesic)(R.copy()), R
        if kind == "segment":
            rows = []
            for u in units:
                a, b = [np.array(r) for r in _null_rows(u["dirs"])]
                pr = []
                for x, s in zip(u["u"], u["s"]):
                    p = math.exp(x) * a + math.exp(-x) * b
                    p = p / math.sqrt(-mink(p, p))
                    pr.append(abs(u["s"][0]) * math.copysign(1.0, s) * p)
                rows.append(pr)
            R = np.array(rows).reshape(tuple(shape) + (2, N))
            return H.Segment(R.copy()), R
        if kind == "hyperplane":
            R = np.array([[u["normal"]] for u in units]).reshape(tuple(shape) + (1, N))
            return H.Hyperplane(R.copy()), R
        R = np.array([[np.array(u["centre"]) * u["s"], u["ref"]] for u in units])
        R = R.reshape(tuple(shape) + (2, N))
        return H.Horosphere(R.copy()), R

    def run(self, params, units, shape, ctx=None):
        obj, R = self.build(params, units, shape)
        c, r = obj.sphere_parameters(model=params["model"])
        c, r = np.array(c), np.array(r)
        if ctx is not None and params["kind"] in ("subspace", "geodesic"):
            D = np.array([u["dirs"] for u in units])
            D = D.reshape(tuple(shape) + D.shape[1:])
            ends = D if params["model"] == "poincare" else HY.poincare_to_halfspace(D)
            dist = np.sqrt(np.sum((ends - c[..., None, :]) ** 2, axis=-1))
            ctx.close("sphere passes through the ideal points", dist,
                      np.broadcast_to(r[..., None], dist.shape), rtol=1e-5, atol=1e-5)
        return [("shape", tuple(obj.shape), "shape"), ("centre", c, "close"),
                ("radius", r, "close")]


class FixedPoints(Op):
    name = "fixed_points"

    def params(self, draw):
        n = draw(st.sampled_from([2, 3, 3]))
        return dict(n=n, allow_elliptic=(n == 2) and draw(st.booleans()),
                    axis_rotations=(n == 3) and draw(st.sampled_from([False, "mixed", "all",
                                                                      "all"])))

    def unit(self, draw, params):
        n = params["n"]
        C = draw(objs.s_isometry(n, tmax=0.8))
        if params["allow_elliptic"] and draw(st.booleans()):
            return dict(C=C, type="elliptic", t=draw(fl(0.3, math.pi - 0.3)) *
                        draw(st.sampled_from([1.0, -1.0])), phi=0.0)
        if params.get("axis_rotations") and (params["axis_rotations"] == "all" or
                                             draw(st.integers(0, 2)) > 0):
            # rotation of H^3 about a geodesic: the eigenvalue 1 is repeated, the fixed point
            # reported is a timelike vector of the 2-dimensional fixed space
            return dict(C=C, type="axis-rotation", t=draw(fl(0.3, math.pi - 0.3)) *
                        draw(st.sampled_from([1.0, -1.0])), phi=0.0)
        return dict(C=C, type="loxodromic", t=draw(fl(0.4, 1.5)) *
                    draw(st.sampled_from([1.0, -1.0])),
                    phi=draw(fl(0.3, math.pi - 0.3)) if n == 3 and draw(st.booleans()) else 0.0)

    @staticmethod
    def matrix(params, u):
        n = params["n"]
        C = np.array(u["C"])
        L = np.eye(n + 1)
        if u["type"] == "elliptic":
            c, s = math.cos(u["t"]), math.sin(u["t"])
            L[1:3, 1:3] = [[c, -s], [s, c]]
        elif u["type"] == "axis-rotation":
            c, s = math.cos(u["t"]), math.sin(u["t"])
            L[2:4, 2:4] = [[c, -s], [s, c]]
        else:
            L = objs.boost(n, 0, u["t"])
            if u["phi"]:
                c, s = math.cos(u["phi"]), math.sin(u["phi"])
                L[2:4, 2:4] = [[c, -s], [s, c]]
        return C @ L @ np.linalg.inv(C), C

    def run(self, params, units, shape, ctx=None):
        n = params["n"]
        mats = [self.matrix(params, u) for u in units]
        M = np.array([m[0] for m in mats]).reshape(tuple(shape) + (n + 1, n + 1))
        iso = H.Isometry(M.copy(), column_vectors=True)
        fp = iso.fixed_point()
        out = [("shape", tuple(fp.shape), "shape"),
               ("fixed_point", np.array(fp.proj_data), "proj")]
        all_lox = all(u["type"] == "loxodromic" for u in units)
        if all_lox:
            pair = iso.fixed_point_pair()
            out.append(("fixed_point_pair", np.array(pair.proj_data), "proj"))
            out.append(("axis", np.array(iso.axis().proj_data), "proj"))
        if ctx is not None and any(u["type"] == "axis-rotation" for u in units):
            F = np.array(fp.proj_data).reshape((-1, n + 1))
            for (m, C), f, u in zip(mats, F, units):
                ctx.small("reported fixed point is fixed (composite with a repeated "
                          "eigenvalue)", proj_dist(m @ f, f), 1e-6)
                if u["type"] != "loxodromic":
                    ctx.check(float(f @ _jform(n + 1) @ f) < 0, "the fixed point reported for "
                              "a rotation is timelike", f=f)
        elif ctx is not None:
            want = []
            for (m, C), u in zip(mats, units):
                if u["type"] == "elliptic":
                    want.append(C[:, 0])
                else:
                    e = np.zeros(n + 1)
                    e[0], e[1] = 1.0, (1.0 if u["t"] > 0 else -1.0)
                    want.append(C @ e)
            want = np.array(want).reshape(tuple(shape) + (n + 1,))
            ctx.small("fixed point vs the conjugated standard one",
                      proj_dist(np.array(fp.proj_data), want), 1e-6)
        return out


class Eigenvector(Op):
    """Transformation.eigenvector / diagonalize on a composite = on each unit; the requested
    eigenvalue may be repeated (reflections, conjugates of diag(3, 1, 1)): whichever
    eigenvector the unit call reports is what the composite reports at that index"""
    name = "eigenvector"

    def params(self, draw):
        return dict(n=draw(st.integers(2, 3)), lam=draw(st.sampled_from([1.0, 1.0, 3.0, -1.0])))

    def unit(self, draw, params):
        n = params["n"]
        spec = draw(st.sampled_from([[3.0, 1.0, 1.0, 1.0], [3.0, 1.0, 1.0, -1.0],
                                     [-1.0, 1.0, 1.0, 1.0], [1.0, 3.0, -1.0, 3.0]]))[:n + 1]
        if params["lam"] not in spec:
            spec[0] = params["lam"]
        return dict(S=draw(gen.wellcond_matrix(n + 1, maxfactor=2.0)), spec=spec)

    def run(self, params, units, shape, ctx=None):
        n = params["n"]
        mats = []
        for u in units:
            S = np.array(u["S"], dtype=float)
            mats.append(S @ np.diag(u["spec"]) @ np.linalg.inv(S))
        M = np.array(mats).reshape(tuple(shape) + (n + 1, n + 1))
        T = P.Transformation(M.copy(), column_vectors=True)
        v = T.eigenvector(params["lam"])
        out = [("shape", tuple(v.shape), "shape"), ("eigenvector", np.array(v.proj_data), "proj")]
        if ctx is not None:
            V = np.array(v.proj_data)
            res = np.einsum("...ij,...j->...i", M, V) - params["lam"] * V
            ctx.small("reported eigenvector: M v = lambda v", res, 1e-8 * (1 + np.abs(V).max()))
        return out


class Sl2Irrep(Op):
    name = "sl2_irrep"

    def params(self, draw):
        return dict(dim=draw(st.integers(1, 5)))

    def unit(self, draw, params):
        return draw(objs.s_matrix(2))

    def run(self, params, units, shape, ctx=None):
        A = _arr(units, shape)
        im = np.array(lie.sl2_irrep(A.copy(), params["dim"]))
        if ctx is not None and params["dim"] == 2:
            # degree-1 polynomials in the basis (e2, e1): the matrix itself, re-indexed
            ctx.close("2-dimensional irrep is the matrix in the reversed basis", im,
                      A[..., ::-1, ::-1], rtol=1e-12, atol=1e-12)
        return [("irrep", im, "close")]


class Sl2ToSo21(Op):
    name = "sl2_to_so21"

    def params(self, draw):
        return dict(det=draw(st.sampled_from(["any", "unimodular"])))

    def unit(self, draw, params):
        M = np.array(draw(objs.s_matrix(2)))
        if params["det"] == "unimodular":
            d = np.linalg.det(M)
            M = M / math.sqrt(abs(d))
        return M.tolist()

    def run(self, params, units, shape, ctx=None):
        A = _arr(units, shape)
        S = np.array(lie.sl2_to_so21(A.copy()))
        iso = H.sl2_iso(A.copy())
        if ctx is not None:
            ctx.check(type(iso) is H.Isometry and tuple(iso.shape) == tuple(shape),
                      "sl2_iso shape", got=iso.shape)
            if params["det"] == "unimodular":
                J = _jform(3)
                ctx.close("image preserves diag(-1,1,1)", np.swapaxes(S, -1, -2) @ J @ S,
                          np.broadcast_to(J, S.shape), rtol=0, atol=1e-8)
        return [("so21", S, "close"),
                ("sl2_iso", np.swapaxes(np.array(iso.matrix), -1, -2), "close")]


class HoroArc(Op):
    name = "horosphere_arc_circle_parameters"

    def params(self, draw):
        return dict(model=draw(st.sampled_from(["poincare", "halfspace"])),
                    degrees=draw(st.booleans()))

    def unit(self, draw, params):
        return dict(alpha=draw(s_angle_away_from_zero(0.4)), p=draw(objs.s_timelike(2, scale=1.0)),
                    s=draw(fl(0.3, 1.5)) * draw(st.sampled_from([1.0, -1.0])),
                    sc=[draw(gen.scalars_pm(0.5, 2.0)) for _ in range(3)])

    @staticmethod
    def rows(u):
        c = _ideal2(u["alpha"])
        p = np.array(u["p"])
        # second point of the same horosphere: p + s w + lam c with w orthogonal to p and c
        e = np.array([0.0, -math.sin(u["alpha"]), math.cos(u["alpha"])])
        w0 = e + mink(e, p) * p
        cp = c + mink(c, p) * p
        w = w0 - mink(w0, cp) / mink(cp, cp) * cp
        w = w / math.sqrt(mink(w, w))
        s = u["s"]
        q = p + s * w - s * s / (2.0 * mink(p, c)) * c
        return [(u["sc"][0] * c).tolist(), (u["sc"][1] * p).tolist(), (u["sc"][2] * q).tolist()]

    def run(self, params, units, shape, ctx=None):
        R = np.array([self.rows(u) for u in units]).reshape(tuple(shape) + (3, 3))
        arc = H.HorosphereArc(H.IdealPoint(R[..., 0, :].copy()), H.Point(R[..., 1, :].copy()),
                              H.Point(R[..., 2, :].copy()))
        c, r, th = arc.circle_parameters(model=params["model"], degrees=params["degrees"])
        c, r, th = np.array(c), np.array(r), np.array(th)
        if ctx is not None:
            ctx.check(tuple(arc.shape) == tuple(shape), "arc composite shape", got=arc.shape)
            pts = HY.klein_to_model(R[..., 1:, 1:] / R[..., 1:, :1], params["model"])
            dist = np.sqrt(np.sum((pts - c[..., None, :]) ** 2, axis=-1))
            ctx.close("both endpoints lie on the circle", dist,
                      np.broadcast_to(r[..., None], dist.shape), rtol=1e-7, atol=1e-7)
        return [("centre", c, "close"), ("radius", r, "close"),
                ("thetas", th, "deg" if params["degrees"] else "rad")]


NULL_VECTORS = {   # exactly lightlike integer vectors of R^(n,1)
    1: [[1, 1], [1, -1], [2, -2]],
    2: [[5, 3, 4], [1, 1, 0], [1, 0, -1], [13, -5, 12], [5, -4, 3]],
    3: [[3, 1, 2, 2], [1, 1, 0, 0], [9, 4, 4, 7], [3, -2, 2, 1], [1, 0, 0, -1]],
    4: [[2, 1, 1, 1, 1], [1, 0, 1, 0, 0], [5, 3, 0, 4, 0], [3, 2, 2, 1, 0]],
}


class MixedCausal(Op):
    """a composite Point whose units are interior points in NON-normalised projective
    coordinates and exactly lightlike ideal points, mixed: every unit is handled as it is
    on its own (an exactly null vector has nothing to be normalised by; its neighbours
    still do)"""
    name = "mixed_interior_and_ideal_points"

    def params(self, draw):
        return dict(n=draw(st.integers(1, 4)))

    def unit(self, draw, params):
        n = params["n"]
        if draw(st.integers(0, 2)) == 0:
            v = draw(st.sampled_from(NULL_VECTORS[n]))
            s = draw(st.sampled_from([1, 1, -1, 2]))
            return dict(kind="ideal", v=[float(s * x) for x in v])
        k = draw(gen.klein_point(n, rmax=0.95))
        s = draw(gen.scalars_pm(0.3, 4.0))
        return dict(kind="interior", v=[s] + [s * x for x in k])

    def run(self, params, units, shape, ctx=None):
        n = params["n"]
        V = np.array([u["v"] for u in units], dtype=float).reshape(tuple(shape) + (n + 1,))
        interior = np.array([u["kind"] == "interior" for u in units]).reshape(tuple(shape))
        Pt = H.Point(V.copy())
        hyp = np.array(Pt.hyperboloid_coords())
        kl = np.array(H.Point(V.copy()).coords("klein"))
        other = H.Point(np.array([1.0] + [0.2] * n))
        with np.errstate(all="ignore"):
            d = np.array(H.Point(V.copy()).distance(other))
        if ctx is not None:
            if interior.any() and not interior.all():
                ctx.label("mixed")
            J = _jform(n + 1)
            nrm = np.einsum("...i,ij,...j->...", hyp, J, hyp)
            ctx.close("interior units are normalised to the hyperboloid", nrm[interior],
                      -np.ones(int(interior.sum())), rtol=0, atol=1e-9)
            ctx.close("Klein coordinates are the chart coordinates", kl,
                      V[..., 1:] / V[..., :1], rtol=1e-12, atol=1e-12)
            want = HY.dist_projective(V[interior], np.broadcast_to(
                np.array([1.0] + [0.2] * n), V[interior].shape))
            ctx.close("distance of the interior units to a fixed point", d[interior], want,
                      rtol=1e-7, atol=1e-6)
        dm = np.where(interior, d, 0.0)
        return [("hyperboloid coords", hyp, "proj"), ("klein", kl, "close"),
                ("distance (interior units)", dm, "dist"),
                ("hyperboloid norms (interior units)",
                 np.where(interior, np.einsum("...i,ij,...j->...", hyp, _jform(n + 1), hyp), 0.0),
                 "close")]


class SimplexSkeleton(Op):
    name = "simplex_skeleton"

    def params(self, draw):
        return dict(n=draw(st.integers(2, 3)), k=draw(st.integers(1, 3)),
                    via=draw(st.sampled_from(["skeleton", "faces", "edges"])))

    def unit(self, draw, params):
        # a triangle (3 vertices) of P^n given by homogeneous rows
        return [[1.0 + 0.1 * j] + draw(gen.klein_point(params["n"], rmax=0.9))
                for j in range(3)]

    def run(self, params, units, shape, ctx=None):
        R = _arr(units, shape)
        S = P.Simplex(R.copy())
        if params["via"] == "faces":
            F = S.faces()
            k = 2
        elif params["via"] == "edges":
            F = S.edges()
            k = 2
        else:
            k = min(params["k"], 3)
            F = S.skeleton(k)
        D = np.array(F.proj_data)
        if ctx is not None:
            import itertools as _it
            idx = list(_it.combinations(range(3), k))
            ctx.check(D.shape == tuple(shape) + (len(idx), k, params["n"] + 1),
                      "skeleton: one sub-simplex per k-subset of the vertices, after the "
                      "object's own axes", got=D.shape,
                      want=tuple(shape) + (len(idx), k, params["n"] + 1))
            ctx.close("skeleton: face j holds the vertices of the j-th subset", D,
                      R[..., idx, :], rtol=0, atol=0)
        return [("shape", tuple(F.shape), "shape"), ("faces", D, "close")]


class BoundaryArcOps(Op):
    name = "boundary_arc"

    def params(self, draw):
        return dict(flip=draw(st.booleans()), degrees=draw(st.booleans()))

    def unit(self, draw, params):
        a = draw(fl(-3.0, 3.0))
        return dict(a=a, b=a + draw(st.one_of(fl(0.2, 2.9), fl(-2.9, -0.2))))

    def run(self, params, units, shape, ctx=None):
        A = np.array([u["a"] for u in units], dtype=float).reshape(shape)
        B = np.array([u["b"] for u in units], dtype=float).reshape(shape)
        ip = lambda t: np.stack([np.ones_like(t), np.cos(t), np.sin(t)], axis=-1)
        if len(shape):
            # (composite arcs: from a list of unit arcs)
            flat = [H.BoundaryArc(ip(a_), ip(b_)) for a_, b_ in zip(A.ravel(), B.ravel())]
            arc = H.BoundaryArc(flat).reshape(tuple(shape))
        else:
            arc = H.BoundaryArc(ip(A), ip(B))
        if params["flip"]:
            arc.flip_orientation()
        c, r, th = arc.circle_parameters(degrees=params["degrees"])
        th = np.array(th, dtype=float)
        if ctx is not None:
            per = 360.0 if params["degrees"] else 2 * np.pi
            want = np.stack([B, A] if params["flip"] else [A, B], axis=-1) * per / (2 * np.pi)
            d = np.abs((th - want + per / 2) % per - per / 2)
            ctx.small("boundary arc: from the first endpoint counter-clockwise to the second "
                      "(the other way round after flip_orientation)", d, 1e-9 * per)
        return [("shape", tuple(arc.shape), "shape"),
                ("thetas mod period", np.stack([np.cos(np.deg2rad(th) if params["degrees"] else th),
                                                np.sin(np.deg2rad(th) if params["degrees"] else th)],
                                               axis=-1), "close")]


OPS = [SimplexSkeleton(), BoundaryArcOps(), MixedCausal(), Coords(), AffineCoords(), Distance(), OriginTo(), TvOriginTo(), UnitTangent(),
       PointAlong(), SegmentCtor(), PolygonEdges(), CircleParameters(), SphereParameters(),
       FixedPoints(), Eigenvector(), Sl2Irrep(), Sl2ToSo21(), HoroArc()]
OP = {o.name: o for o in OPS}


def op_case(op, max_rank=3, shape=None):
    @st.composite
    def strat(draw):
        sh = draw(gen.shapes(max_rank=max_rank)) if shape is None else list(shape)
        params = op.params(draw)
        units = [op.unit(draw, params) for _ in range(gen.prod(sh))]
        return dict(op=op.name, params=params, shape=sh, units=units)
    return strat()


# --------------------------------------------------------------------------- comparison
def angle_diff(a, b, period):
    d = (np.asarray(a) - np.asarray(b)) % period
    return np.minimum(d, period - d)


def subspace_gap(A, B):
    """sin of the largest principal angle between the row spaces of A and B (k, m)"""
    qa = np.linalg.qr(np.asarray(A).T)[0]
    qb = np.linalg.qr(np.asarray(B).T)[0]
    return float(np.linalg.norm(qa @ qa.conj().T - qb @ qb.conj().T, 2))


def compare_value(ctx, name, mode, got, want, **detail):
    """`got`, `want` arrays of identical shape (composite result vs stacked unit results)"""
    got = np.asarray(got)
    want = np.asarray(want)
    ctx.check(got.shape == want.shape, name + ": shape of the composite result", got=got.shape,
              want=want.shape, **detail)
    if got.size == 0:
        return
    if mode in ("close", "dist", "deg", "rad"):
        fin_g, fin_w = np.isfinite(got), np.isfinite(want)
        ctx.check(np.array_equal(fin_g, fin_w), name + ": non-finite entries differ", **detail)
        g = np.where(fin_g, got, 0.0)
        w = np.where(fin_w, want, 0.0)
        if mode == "close":
            ctx.close(name, g, w, rtol=1e-9, atol=1e-11, **detail)
        elif mode == "dist":
            ctx.close(name, g, w, rtol=1e-9, atol=1e-7, **detail)
        else:
            period = 360.0 if mode == "deg" else 2 * math.pi
            ctx.small(name, angle_diff(g, w, period), 1e-9 * period, **detail)
    elif mode == "proj":
        ctx.small(name, proj_dist(got, want), 1e-9, **detail)
    elif mode == "matproj":
        from ..num import mat_proj_dist
        ctx.small(name, mat_proj_dist(got, want), 1e-9, **detail)
    elif mode == "tangent":
        ctx.small(name, proj_dist(got, want), 1e-9, **detail)
        ctx.check(np.all(objs.tangent_sign_ok(got, want)), name + ": direction reversed",
                  **detail)
    elif mode == "subspace":
        lead = got.shape[:-2]
        for idx in np.ndindex(*lead):
            ctx.small(name, subspace_gap(got[idx], want[idx]), 1e-8, index=idx, **detail)
    else:
        raise objs.HarnessError("unknown comparison mode %r" % mode)
