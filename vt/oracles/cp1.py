"""Closed forms on the Riemann sphere used as oracles for C20.  Nothing here
imports geometry_tools.

Conventions (verified by probe against the library, see CONVENTIONS.md):
  * a point (z0, z1) of CP^1 has affine coordinate z = z1 / z0; (0, 1) is infinity
  * the sphere S^2 in R^3 and the plane are related by stereographic projection from
    the north pole (0,0,1):  z = (X + iY) / (1 - Z);  infinity <-> north pole
  * a *column* matrix M = [[M00, M01], [M10, M11]] acts on (z0, z1)^T, i.e.
    z -> (M10 + M11 z) / (M00 + M01 z); the pole is -M00 / M01
  * a disk is (c, r, out): the open set |z - c| < r when out is False, and
    {|z - c| > r} + {infinity} when out is True
"""
import cmath
import math
import numpy as np

INF = "inf"


# ---------------------------------------------------------------- points / sphere
def sphere_to_z(s):
    """stereographic projection of a unit vector; returns INF for the north pole"""
    X, Y, Z = (float(t) for t in s)
    if 1.0 - Z == 0.0:
        return INF
    return complex(X, Y) / (1.0 - Z)


def z_to_sphere(z):
    if isinstance(z, str):
        return np.array([0.0, 0.0, 1.0])
    z = complex(z)
    m = abs(z) ** 2
    return np.array([2 * z.real / (1 + m), 2 * z.imag / (1 + m), (m - 1) / (1 + m)])


def homog_to_sphere(z0, z1):
    """sphere point of the homogeneous pair (z0, z1), symmetric in both charts (no
    division by a possibly tiny coordinate)"""
    z0 = complex(z0)
    z1 = complex(z1)
    n = abs(z0) ** 2 + abs(z1) ** 2
    h = 2 * z0.conjugate() * z1 / n
    return np.array([h.real, h.imag, (abs(z1) ** 2 - abs(z0) ** 2) / n])


def chordal(p, q):
    """projective (chordal) distance of two homogeneous pairs, in [0, 1]"""
    p = np.asarray(p, dtype=complex)
    q = np.asarray(q, dtype=complex)
    det = p[..., 0] * q[..., 1] - p[..., 1] * q[..., 0]
    return np.abs(det) / (np.sqrt(np.sum(np.abs(p) ** 2, axis=-1)) *
                          np.sqrt(np.sum(np.abs(q) ** 2, axis=-1)))


# ---------------------------------------------------------------- Moebius maps
def mob_matrix_general(q, p, k):
    """column matrix of f(z) = q + k / (z - p)  (f(inf) = q, f(p) = inf)"""
    # f(z) = (q z + (k - q p)) / (z - p);  z -> (M10 + M11 z)/(M00 + M01 z)
    return np.array([[-p, 1.0], [k - q * p, q]], dtype=complex)


def mob_matrix_affine(a, b):
    """column matrix of f(z) = a z + b"""
    return np.array([[1.0, 0.0], [b, a]], dtype=complex)


def mob_apply(M, z):
    """image of z (complex or INF) under the column matrix M; may return INF"""
    M = np.asarray(M, dtype=complex)
    if isinstance(z, str):
        num, den = M[1, 1], M[0, 1]
    else:
        num, den = M[1, 0] + M[1, 1] * z, M[0, 0] + M[0, 1] * z
    if den == 0:
        return INF
    return complex(num / den)


def mob_pole(M):
    M = np.asarray(M, dtype=complex)
    if M[0, 1] == 0:
        return INF
    return complex(-M[0, 0] / M[0, 1])


def in_disk(disk, z):
    """membership of z (complex or INF) in the open disk (c, r, out)"""
    c, r, out = disk
    if isinstance(z, str):
        return bool(out)
    d = abs(complex(z) - c)
    return (d > r) if out else (d < r)


def image_disk(disk, M):
    """image of the disk (c, r, out) under the column matrix M, as (c', r', out',
    amplification).  Closed form for the image of |z - c| = r under
    w = (a z + b) / (g z + d):
        c' = ((a c + b) conj(g c + d) - a conj(g) r^2) / (|g c + d|^2 - |g|^2 r^2)
        r' = r |a d - b g| / | |g c + d|^2 - |g|^2 r^2 |
    the image contains infinity iff the disk contains the pole.  `amplification`
    = (|g c + d|^2 + |g|^2 r^2) / | |g c + d|^2 - |g|^2 r^2 |  (>= 1) measures how
    close the pole is to the circle, i.e. the conditioning of c', r'."""
    c, r, out = disk
    M = np.asarray(M, dtype=complex)
    d_, g, b, a = M[0, 0], M[0, 1], M[1, 0], M[1, 1]
    den = abs(g * c + d_) ** 2 - abs(g) ** 2 * r ** 2
    cen = ((a * c + b) * np.conj(g * c + d_) - a * np.conj(g) * r ** 2) / den
    rad = r * abs(a * d_ - b * g) / abs(den)
    pole = mob_pole(M)
    amp = (abs(g * c + d_) ** 2 + abs(g) ** 2 * r ** 2) / abs(den)
    return (complex(cen), float(rad), bool(in_disk(disk, pole)), float(amp))


def mob_inverse(M):
    M = np.asarray(M, dtype=complex)
    return np.array([[M[1, 1], -M[0, 1]], [-M[1, 0], M[0, 0]]], dtype=complex)


# ---------------------------------------------------------------- disk relations
def relation_truth(A, B, margin=0.02):
    """(contains, intersects, general_position) for open disks A, B = (c, r, out):
    does A contain B / do they meet.  general_position is False when the pair is
    within `margin` (relative) of a tangency, where the answers are not stable."""
    ca, ra, oa = A
    cb, rb, ob = B
    d = abs(ca - cb)
    big = max(ra, rb)
    gp = (abs(d - (ra + rb)) >= margin * (ra + rb) and
          abs(d - abs(ra - rb)) >= margin * big)
    if not oa and not ob:
        return (d < ra - rb, d < ra + rb, gp)
    if not oa and ob:
        # a bounded disk never contains a neighbourhood of infinity; it misses
        # the exterior of circle B iff it lies inside circle B
        return (False, not (d < rb - ra), gp)
    if oa and not ob:
        # exterior of circle A contains disk B iff the two round disks are disjoint;
        # it misses B iff B lies inside circle A
        return (d > ra + rb, not (d < ra - rb), gp)
    # both contain infinity
    return (d < rb - ra, True, gp)


def disk_samples(disk, toward=None, delta=0.005):
    """Deterministic sample points of the open disk (c, r, out): a polar grid of 64
    points plus, when `toward` (a complex number) is given, the two points of the
    disk that are extreme along the line through c and `toward` (at relative depth
    `delta` from the boundary): for round disks these two decide containment and
    disjointness.  Unbounded disks also get INF."""
    c, r, out = disk
    pts = []
    radii = ([0.0, 0.3, 0.55, 0.75, 0.9, 0.97, 0.99, 1 - delta] if not out else
             [1 + delta, 1.01, 1.03, 1.1, 1.3, 2.0, 8.0, 100.0])
    for i, rho in enumerate(radii):
        for k in range(8):
            th = 2 * math.pi * (k + 0.37 * i) / 8
            pts.append(c + r * rho * cmath.exp(1j * th))
    if toward is not None:
        u = toward - c
        u = u / abs(u) if abs(u) > 0 else 1.0
        e = (1 - delta) if not out else (1 + delta)
        pts.append(c + r * e * u)
        pts.append(c - r * e * u)
    if out:
        pts.append(INF)
    return pts


def relation_by_samples(A, B):
    """(contains, intersects) decided by sampled membership only:
    A contains B  iff every sample of B lies in A and no sample of the complement of A
    lies in B;  A meets B  iff some sample of B lies in A or some sample of A lies in B.
    With the extreme points along the line of centres among the samples this is exact
    for round disks that are >= 2% away from tangency."""
    tB = A[0] if A[0] != B[0] else None
    sB = disk_samples(B, toward=tB)
    sA = disk_samples(A, toward=B[0] if tB is not None else None)
    Ac = (A[0], A[1], not A[2])
    sAc = disk_samples(Ac, toward=B[0] if tB is not None else None)
    contains = all(in_disk(A, z) for z in sB) and not any(in_disk(B, z) for z in sAc)
    meets = any(in_disk(A, z) for z in sB) or any(in_disk(B, z) for z in sA)
    return (contains, meets)


# ---------------------------------------------------------------- spherical caps
def cap_to_affine(n, alpha):
    """the spherical cap {s : <s, n> > cos(alpha)} (n a unit vector) in the affine
    chart: returns (c, r, out).  From s = (2x, 2y, |z|^2 - 1)/(|z|^2 + 1):
    (n3 - cos a)|z|^2 + 2 n1 x + 2 n2 y - (n3 + cos a) > 0."""
    n1, n2, n3 = (float(t) for t in n)
    ca = math.cos(alpha)
    A = n3 - ca
    cen = complex(-n1, -n2) / A
    rad = math.sqrt(abs(cen) ** 2 + (n3 + ca) / A)
    return (cen, rad, A > 0)


def circle_cond(pts):
    """condition number of the linear system solved for the circle through three
    points of the plane (complex numbers)"""
    p = [complex(t) for t in pts]
    T = np.array([[(p[1] - p[0]).real, (p[1] - p[0]).imag],
                  [(p[2] - p[0]).real, (p[2] - p[0]).imag]])
    s = np.linalg.svd(T, compute_uv=False)
    if s[-1] == 0:
        return float("inf")
    return float(s[0] / s[-1])
