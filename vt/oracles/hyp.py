"""Closed-form hyperbolic geometry written independently of the library.

Conventions (documented by the library's README/docstrings and pinned here):
R^(n,1) with form diag(-1,1,...,1); Klein = affine chart x0=1; the origin is
(1,0,...,0); the half-space point at infinity is the Poincare point
(1,0,...,0) and the origin maps to (0,...,0,1)."""
import numpy as np


def klein_to_hyperboloid(k):
    k = np.asarray(k, dtype=float)
    r2 = np.sum(k * k, axis=-1, keepdims=True)
    w = 1.0 / np.sqrt(1.0 - r2)
    return np.concatenate([w, w * k], axis=-1)


def klein_to_poincare(k):
    k = np.asarray(k, dtype=float)
    r2 = np.sum(k * k, axis=-1, keepdims=True)
    return k / (1.0 + np.sqrt(np.maximum(1.0 - r2, 0.0)))


def poincare_to_klein(p):
    p = np.asarray(p, dtype=float)
    r2 = np.sum(p * p, axis=-1, keepdims=True)
    return 2.0 * p / (1.0 + r2)


def poincare_to_halfspace(p):
    """Cayley transform written as a sphere inversion: q = e + 2(p-e)/|p-e|^2 with
    e=(1,0,..,0); half-space coordinates are (-q_1..-q_{n-1}, -q_0)."""
    p = np.asarray(p, dtype=float)
    e = np.zeros(p.shape[-1])
    e[0] = 1.0
    d = p - e
    q = e + 2.0 * d / np.sum(d * d, axis=-1, keepdims=True)
    return np.concatenate([-q[..., 1:], -q[..., :1]], axis=-1)


def halfspace_to_poincare(h):
    """inverse of the above (the inversion is an involution)"""
    h = np.asarray(h, dtype=float)
    q = np.concatenate([-h[..., -1:], -h[..., :-1]], axis=-1)
    e = np.zeros(h.shape[-1])
    e[0] = 1.0
    d = q - e
    return e + 2.0 * d / np.sum(d * d, axis=-1, keepdims=True)


def klein_to_model(k, model):
    if model == "klein":
        return np.asarray(k, dtype=float)
    if model == "poincare":
        return klein_to_poincare(k)
    if model == "halfspace":
        return poincare_to_halfspace(klein_to_poincare(k))
    if model == "hyperboloid":
        return klein_to_hyperboloid(k)
    if model == "projective":
        k = np.asarray(k, dtype=float)
        return np.concatenate([np.ones(k.shape[:-1] + (1,)), k], axis=-1)
    raise ValueError(model)


def dist_klein(a, b):
    a = np.asarray(a, dtype=float)
    b = np.asarray(b, dtype=float)
    ab = np.sum(a * b, axis=-1)
    aa = np.sum(a * a, axis=-1)
    bb = np.sum(b * b, axis=-1)
    # cosh d = (1-ab)/sqrt((1-aa)(1-bb));  use the cancellation-free form
    # cosh d - 1 = ((1-ab)^2 - (1-aa)(1-bb)) / (den (1-ab+den))
    den = np.sqrt((1 - aa) * (1 - bb))
    # (1-ab)^2 - (1-aa)(1-bb) = |a-b|^2 - (|a|^2|b|^2 - (ab)^2)
    num2 = np.sum((a - b) ** 2, axis=-1) - (aa * bb - ab * ab)
    x = np.maximum(num2, 0.0) / (den * ((1 - ab) + den))
    return _acosh1p(x)


def _acosh1p(x):
    """arccosh(1+x) accurately for small x >= 0"""
    x = np.asarray(x, dtype=float)
    return np.log1p(x + np.sqrt(x * (x + 2.0)))


def dist_poincare(a, b):
    a = np.asarray(a, dtype=float)
    b = np.asarray(b, dtype=float)
    aa = np.sum(a * a, axis=-1)
    bb = np.sum(b * b, axis=-1)
    d2 = np.sum((a - b) ** 2, axis=-1)
    return _acosh1p(2.0 * d2 / ((1 - aa) * (1 - bb)))


def dist_halfspace(a, b):
    a = np.asarray(a, dtype=float)
    b = np.asarray(b, dtype=float)
    d2 = np.sum((a - b) ** 2, axis=-1)
    return _acosh1p(d2 / (2.0 * a[..., -1] * b[..., -1]))


def dist_hyperboloid(a, b):
    a = np.asarray(a, dtype=float)
    b = np.asarray(b, dtype=float)
    # -<a,b> - 1 = -<a-b,a-b>/2 for unit timelike a,b: cancellation-free
    d = a - b
    q = -d[..., 0] ** 2 + np.sum(d[..., 1:] ** 2, axis=-1)
    return _acosh1p(np.maximum(q, 0.0) / 2.0)


def dist_projective(a, b):
    """distance from arbitrary timelike representatives"""
    a = np.asarray(a, dtype=float)
    b = np.asarray(b, dtype=float)
    from ..num import mink
    na = np.sqrt(-mink(a, a))
    nb = np.sqrt(-mink(b, b))
    ah = a / na[..., None] * np.sign(a[..., :1])
    bh = b / nb[..., None] * np.sign(b[..., :1])
    return dist_hyperboloid(ah, bh)


def dist_model(a, b, model):
    return {"klein": dist_klein, "poincare": dist_poincare, "halfspace": dist_halfspace,
            "hyperboloid": dist_hyperboloid, "projective": dist_projective}[model](a, b)
