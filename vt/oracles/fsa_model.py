"""Plain set-based reference model of a labelled directed graph / deterministic
automaton (C09, C10), the view comparison used after every history step, and
view snapshots for purity checks.

Nothing here calls an algorithm of geometry_tools.automata.fsa: the model is a
vertex list plus a set of (tail, head, label) triples, every derived notion
(language, recurrent core, shortest-path subgraph, k-multiple) is recomputed
from that set with an algorithm different from the library's where one exists
(recurrent core through cycle reachability, k-multiple through word lists).
"""
import collections


def vkey(v):
    """total order on mixed int / str vertices and labels"""
    return (type(v).__name__, v)


class GraphModel:
    def __init__(self, verts=(), edges=(), start=()):
        self.verts = []
        for v in verts:
            if v not in self.verts:
                self.verts.append(v)
        self.edges = set()
        for (t, h, l) in edges:
            self.add_edge(t, h, l)
        self.start = list(start)

    # -- constructors -----------------------------------------------------
    @classmethod
    def from_pairs(cls, graph, start=()):
        """graph = [[v, [[label, head], ...]], ...] (the JSON form of a
        label->target dictionary); heads that are not keys are "hidden"
        vertices and come after the keys, in order of first appearance."""
        m = cls(start=start)
        for v, _ in graph:
            m.add_vertices([v])
        for v, nb in graph:
            for l, h in nb:
                if h not in m.verts:
                    m.verts.append(h)
                m.edges.add((v, h, l))
        return m

    def copy(self):
        m = GraphModel()
        m.verts = list(self.verts)
        m.edges = set(self.edges)
        m.start = list(self.start)
        return m

    # -- reading ----------------------------------------------------------
    def vset(self):
        return set(self.verts)

    def labels(self):
        return sorted({l for (_, _, l) in self.edges}, key=vkey)

    def sorted_edges(self):
        return sorted(self.edges, key=lambda e: (vkey(e[0]), vkey(e[1]), vkey(e[2])))

    def out(self, v):
        return {l: h for (t, h, l) in self.edges if t == v}

    def graph_dict(self):
        d = {v: {} for v in self.verts}
        for (t, h, l) in self.edges:
            d[t][l] = h
        return d

    def target(self, t, l):
        for (t2, h, l2) in self.edges:
            if t2 == t and l2 == l:
                return h
        return None

    def labels_between(self, t, h):
        return sorted([l for (t2, h2, l) in self.edges if t2 == t and h2 == h], key=vkey)

    def nbrs_out(self, v):
        return {h for (t, h, _) in self.edges if t == v}

    def nbrs_in(self, v):
        return {t for (t, h, _) in self.edges if h == v}

    def is_deterministic(self):
        seen = set()
        for (t, _, l) in self.edges:
            if (t, l) in seen:
                return False
            seen.add((t, l))
        return True

    # -- edits ------------------------------------------------------------
    def add_vertices(self, vs):
        for v in vs:
            if v not in self.verts:
                self.verts.append(v)

    def add_edge(self, t, h, l):
        self.add_vertices([t, h])
        self.edges.add((t, h, l))

    def delete_vertex(self, v):
        self.verts.remove(v)
        self.edges = {e for e in self.edges if e[0] != v and e[1] != v}

    def induced(self, keep):
        m = GraphModel(start=self.start)
        m.verts = [v for v in self.verts if v in keep]
        m.edges = {e for e in self.edges if e[0] in keep and e[1] in keep}
        return m

    def renamed(self, mp):
        m = GraphModel(start=self.start)
        m.verts = list(self.verts)
        m.edges = {(t, h, mp[l]) for (t, h, l) in self.edges}
        return m

    # -- reachability -----------------------------------------------------
    def _closure(self):
        """reach[v] = set of vertices reachable from v by a path of length >= 1"""
        reach = {v: set(self.nbrs_out(v)) for v in self.verts}
        changed = True
        while changed:
            changed = False
            for v in self.verts:
                new = set()
                for w in reach[v]:
                    new |= reach[w]
                if not new <= reach[v]:
                    reach[v] |= new
                    changed = True
        return reach

    def recurrent_core(self):
        """vertices lying on a bi-infinite path = reachable from a cycle and
        reaching a cycle (the greatest set in which every vertex keeps an
        incoming and an outgoing edge)"""
        reach = self._closure()
        cyc = {v for v in self.verts if v in reach[v]}
        keep = set()
        for v in self.verts:
            fwd = v in cyc or bool(reach[v] & cyc)
            bwd = v in cyc or any(v in reach[c] for c in cyc)
            if fwd and bwd:
                keep.add(v)
        return keep

    def recurrent(self):
        return self.induced(self.recurrent_core())

    def has_cycle(self):
        reach = self._closure()
        return any(v in reach[v] for v in self.verts)

    def dead_ends(self):
        return [v for v in self.verts if not self.nbrs_out(v) or not self.nbrs_in(v)]

    def distances(self, root):
        """hop distance from root by relaxation (Bellman-Ford style, not a queue)"""
        dist = {root: 0}
        changed = True
        while changed:
            changed = False
            for (t, h, _) in self.edges:
                if t in dist and (h not in dist or dist[h] > dist[t] + 1):
                    dist[h] = dist[t] + 1
                    changed = True
        return dist

    def shortest_edges(self, root):
        dist = self.distances(root)
        return {(t, h, l) for (t, h, l) in self.edges
                if t in dist and dist[h] == dist[t] + 1}

    def shortest_path_model(self, root):
        m = GraphModel(start=[])
        m.verts = list(self.verts)
        m.edges = self.shortest_edges(root)
        return m

    def check_shortest_tree(self, root, got_edges):
        """validity predicate for remove_long_paths(edge_ties=False); returns
        None or a message"""
        dist = self.distances(root)
        good = self.shortest_edges(root)
        got_edges = set(got_edges)
        if not got_edges <= good:
            return "kept an edge that is not on a shortest path: %r" % (
                sorted(got_edges - good, key=repr)[:3],)
        pairs = {(t, h) for (t, h, _) in got_edges}
        for (t, h) in pairs:
            want = {(t, h, l) for l in self.labels_between(t, h)}
            have = {e for e in got_edges if e[0] == t and e[1] == h}
            if want != have:
                return "labels of a kept pair differ from the source: %r" % ((t, h),)
        for v in self.verts:
            indeg = len({t for (t, h) in pairs if h == v})
            if v == root or v not in dist:
                if indeg != 0:
                    return "root / unreachable vertex %r has a kept incoming edge" % (v,)
            elif indeg != 1:
                return "reachable vertex %r has %d kept incoming pairs" % (v, indeg)
        return None

    # -- language ---------------------------------------------------------
    def follow(self, word, v):
        """end vertex of the path labelled by the label sequence `word` from v,
        or None (also returns the length of the longest accepted prefix)"""
        for i, l in enumerate(word):
            nxt = self.target(v, l)
            if nxt is None:
                return None, i
            v = nxt
        return v, len(word)

    def paths(self, v, length):
        """list of (label tuple, end vertex) of all paths of exactly `length`
        edges from v"""
        cur = [((), v)]
        for _ in range(length):
            nxt = []
            for (w, x) in cur:
                for (t, h, l) in self.edges:
                    if t == x:
                        nxt.append((w + (l,), h))
            cur = nxt
        return cur

    def multiple(self, k):
        """the k-multiple automaton: vertices reachable from the start
        vertices in a multiple of k steps, one edge per path of length k,
        labelled by the concatenated labels"""
        m = GraphModel(start=self.start)
        todo = list(self.start)
        seen = []
        while todo:
            v = todo.pop()
            if v in seen:
                continue
            seen.append(v)
            for (w, h) in self.paths(v, k):
                m.edges.add((v, h, "".join(w)))
                if h not in seen:
                    todo.append(h)
        # vertex order: irrelevant for comparison (sets)
        m.verts = [v for v in self.verts if v in seen] + [v for v in seen
                                                          if v not in self.verts]
        return m


# ---------------------------------------------------------------------------
# reading the three views of a library FSA without disturbing them
def _plain(x):
    """repr-stable plain form for snapshotting possibly corrupted values"""
    try:
        hash(x)
        return x
    except TypeError:
        return "<unhashable %s>" % (repr(x),)


def snapshot(fsa):
    """Hashable snapshot of the three views (top-level empty entries of the
    incoming view are the same description as a missing key and are dropped).
    Uses only non-inserting reads."""
    g = []
    for v, nb in fsa.graph_dict.items():
        g.append(("v", _plain(v)))
        for l, h in nb.items():
            g.append(("e", _plain(v), _plain(l), _plain(h)))
    o = []
    for v, nb in fsa.out_dict.items():
        o.append(("v", _plain(v)))
        for h, labs in nb.items():
            o.append(("e", _plain(v), _plain(h), tuple(_plain(l) for l in labs)))
    i = []
    for v, nb in fsa.in_dict.items():
        for t, labs in nb.items():
            i.append(("e", _plain(t), _plain(v), tuple(_plain(l) for l in labs)))
    key = repr
    return (tuple(sorted(g, key=key)), tuple(sorted(o, key=key)), tuple(sorted(i, key=key)),
            tuple(_plain(s) for s in fsa.start_vertices))


def _counter(it):
    c = collections.Counter()
    for x in it:
        c[_plain(x) if not isinstance(x, tuple) else tuple(_plain(y) for y in x)] += 1
    return c


def _cdiff(got, want):
    extra = got - want
    missing = want - got
    return {"listed_but_not_in_model_or_listed_twice": sorted(extra.elements(), key=repr)[:6],
            "missing": sorted(missing.elements(), key=repr)[:6]}


def _same(lst, eset):
    """the list is the set, each element once (elements may be unhashable when a
    view is corrupted: then they differ)"""
    try:
        return len(lst) == len(eset) and set(lst) == eset
    except TypeError:
        return False


def _srt(x):
    return sorted(x, key=repr)


def check_views(fsa, model, ctx, where="", accessors=True, start=True):
    """The label view, the outgoing view and the incoming view of `fsa`
    describe exactly the vertex set and the edge multiset of `model`; so do
    the public accessors.  Only non-inserting reads are used, except
    neighbors_in / edges_in (which may add an empty top-level entry to the
    incoming view: tolerated, see ASSUMPTIONS of C09).  Details are only
    computed for a failing comparison."""
    V = model.vset()
    E = model.edges
    nout = {v: set() for v in model.verts}
    nin = {v: set() for v in model.verts}
    eout = {v: set() for v in model.verts}
    ein = {v: set() for v in model.verts}
    for e in E:
        nout[e[0]].add(e[1])
        nin[e[1]].add(e[0])
        eout[e[0]].add(e)
        ein[e[1]].add(e)

    def bad(msg, got=None, want=None, **kw):
        d = dict(kw)
        if got is not None and want is not None:
            d.update(_cdiff(_counter(got), collections.Counter(want)))
        d["where"] = where
        ctx.fail(msg, **d)

    def vbad(msg, got, want, **kw):
        ctx.fail(msg, got=_srt(got), want=_srt(want), where=where, **kw)

    # label view
    g = fsa.graph_dict
    if set(g.keys()) != V:
        vbad("label view: vertex set differs from the model", g.keys(), V)
    ge = [(v, h, l) for v, nb in g.items() for l, h in nb.items()]
    if not _same(ge, E):
        bad("label view: edge set differs from the model", ge, E)

    # outgoing view
    o = fsa.out_dict
    if set(o.keys()) != V:
        vbad("outgoing view: vertex set differs from the model", o.keys(), V)
    oe = [(v, h, l) for v, nb in o.items() for h, labs in nb.items() for l in labs]
    if not _same(oe, E):
        bad("outgoing view: edge multiset differs from the model (an edge listed twice "
            "counts)", oe, E)
    for v, nb in o.items():
        if set(nb.keys()) != nout[v]:
            vbad("outgoing view lists a neighbour without an edge", nb.keys(), nout[v],
                 vertex=v)

    # incoming view
    i = fsa.in_dict
    if not set(i.keys()) <= V:
        vbad("incoming view: has an entry for a non-vertex", i.keys(), V)
    ie = [(t, v, l) for v, nb in i.items() for t, labs in nb.items() for l in labs]
    if not _same(ie, E):
        bad("incoming view: edge multiset differs from the model (an edge listed twice "
            "counts)", ie, E)
    for v, nb in i.items():
        if set(nb.keys()) != nin[v]:
            vbad("incoming view lists a neighbour without an edge", nb.keys(), nin[v],
                 vertex=v)
    ctx.units += 6

    if start:
        ctx.check(list(fsa.start_vertices) == list(model.start), "start vertices differ",
                  got=list(fsa.start_vertices), want=list(model.start), where=where)
    if not accessors:
        return
    # public accessors
    vs = list(fsa.vertices())
    if not _same(vs, V):
        vbad("vertices() differs from the model", vs, V)
    ee = list(fsa.edges(with_labels=True))
    if not _same(ee, E):
        bad("edges(with_labels=True) differs from the model", ee, E)
    e2 = list(fsa.edges())
    w2 = [(t, h) for (t, h, _) in E]
    if _srt(e2) != _srt(w2):
        bad("edges() differs from the model", e2, w2)
    ctx.units += 3
    for v in model.verts:
        eo = list(fsa.edges_out(v))
        if not _same(eo, eout[v]):
            bad("edges_out differs from the model", eo, eout[v], vertex=v)
        ei = list(fsa.edges_in(v))
        if not _same(ei, ein[v]):
            bad("edges_in differs from the model", ei, ein[v], vertex=v)
        no = list(fsa.neighbors_out(v))
        if not _same(no, nout[v]):
            vbad("neighbors_out differs from the model", no, nout[v], vertex=v)
        ni = list(fsa.neighbors_in(v))
        if not _same(ni, nin[v]):
            vbad("neighbors_in differs from the model", ni, nin[v], vertex=v)
        ctx.units += 4


def check_pair_queries(fsa, model, ctx, t, h, where=""):
    """has_edge / edge_labels / edge_label on one ordered pair of vertices"""
    labs = model.labels_between(t, h)
    ctx.check(bool(fsa.has_edge(t, h)) == (len(labs) > 0), "has_edge differs from the model",
              tail=t, head=h, want=len(labs) > 0, where=where)
    got = list(fsa.edge_labels(t, h))
    ctx.check(sorted(got, key=vkey) == labs, "edge_labels differs from the model", tail=t,
              head=h, got=got, want=labs, where=where)
    try:
        one = fsa.edge_label(t, h)
    except ValueError:
        one = ValueError
    if len(labs) == 1:
        ctx.check(one == labs[0], "edge_label of a single edge", tail=t, head=h,
                  got=repr(one), want=labs[0], where=where)
    else:
        ctx.check(one is ValueError, "edge_label must raise ValueError unless there is "
                  "exactly one edge", tail=t, head=h, got=repr(one), labels=labs, where=where)


# ---------------------------------------------------------------------------
# building library automata from JSON cases
def pairs_to_graph_dict(graph):
    return {v: {l: h for l, h in nb} for v, nb in graph}


def model_to_alt_dict(model):
    """target -> labels dictionary with every vertex as a key"""
    d = {v: {} for v in model.verts}
    for (t, h, l) in model.sorted_edges():
        d[t].setdefault(h, []).append(l)
    return d


def free_model(gens):
    """model of fsa.free_automaton(gens): one state per generator / inverse
    plus the start state ''; from state g every letter except the inverse of
    g leads to the state of that letter"""
    gens = list(gens)
    inv = [g.swapcase() for g in gens]
    letters = gens + inv
    m = GraphModel(start=[""])
    m.add_vertices([""] + letters)
    for g in [""] + letters:
        for h in letters:
            if g == "" or h.swapcase() != g:
                m.edges.add((g, h, h))
    return m
